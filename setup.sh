#!/bin/sh
# Build the simulator offline for the feature sets the quick checks use.
set -e
cd "$(dirname "$0")"
export CARGO_NET_OFFLINE=true
for spec in "default:" "all:get-info-full,large-blobs,third-party-payment" "all+arb:get-info-full,large-blobs,third-party-payment,std,arbitrary"; do
  tag="${spec%%:*}"; feats="${spec#*:}"
  if [ -n "$feats" ]; then
    CARGO_TARGET_DIR="target/$tag" cargo build --release --offline --quiet --manifest-path sim/Cargo.toml --features "$feats"
  else
    CARGO_TARGET_DIR="target/$tag" cargo build --release --offline --quiet --manifest-path sim/Cargo.toml
  fi
done
echo "setup ok"
