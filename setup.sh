#!/bin/sh
# Build the simulator offline for the feature sets the quick checks use (in parallel).
cd "$(dirname "$0")"
mkdir -p target
export CARGO_NET_OFFLINE=true
fail=0
pids=""
for spec in "default:" "lb+tpp+std+log:large-blobs,third-party-payment,std,log-all" "gif+tpp+std+log:get-info-full,third-party-payment,std,log-all" "gif+lb+std+log:get-info-full,large-blobs,std,log-all" "all+log:get-info-full,large-blobs,third-party-payment,log-all" "arb+log:std,arbitrary,log-all" "all:get-info-full,large-blobs,third-party-payment" "all+std:get-info-full,large-blobs,third-party-payment,std" "all+arb:get-info-full,large-blobs,third-party-payment,std,arbitrary" "arb:std,arbitrary"; do
  tag="${spec%%:*}"; feats="${spec#*:}"
  if [ -n "$feats" ]; then
    CARGO_TARGET_DIR="target/$tag" cargo build -j 6 --release --offline --quiet --manifest-path sim/Cargo.toml --features "$feats" >"target/setup-$tag.log" 2>&1 &
  else
    CARGO_TARGET_DIR="target/$tag" cargo build -j 6 --release --offline --quiet --manifest-path sim/Cargo.toml >"target/setup-$tag.log" 2>&1 &
  fi
  pids="$pids $!"
done
for p in $pids; do wait "$p" || fail=1; done
if [ $fail -ne 0 ]; then echo "setup failed"; grep -h -A12 "^error" target/setup-*.log | head -60; exit 1; fi
echo "setup ok"
