#!/bin/sh
# Thorough tier only: interpret a sample of simulated runs under Miri so that undefined behaviour
# inside real code (floor_char_boundary's unwrap_unchecked, arbitrary_byte_array's pointer cast,
# from_utf8_unchecked) is trapped even where it would not crash natively.
#   ./miri.sh <C04|C19> <seed>          exit 0 clean, 1 UB or finding, 2 could not run
prop="$1"; seed="${2:-1}"
cd "$(dirname "$0")/sim" || exit 2
export CARGO_NET_OFFLINE=true CARGO_TARGET_DIR=/verif/target/miri
case "$prop" in
  C04) feats="get-info-full,large-blobs,third-party-payment"; procs=12; per=4; maxsteps=40 ;;
  C19) feats="get-info-full,large-blobs,third-party-payment,std,arbitrary"; procs=14; per=3; maxsteps=40 ;;
  *) echo "usage: miri.sh C04|C19 seed"; exit 2 ;;
esac
command -v cargo >/dev/null || exit 2
tmp=$(mktemp -d /verif/target/miri-out.XXXXXX) || exit 2
# build once (an empty run range), then interpret disjoint run ranges in parallel
MIRIFLAGS="-Zmiri-disable-isolation" cargo +nightly miri run --offline --quiet --features "$feats" -- inproc "$prop" selfcheck --seed "$seed" --from 1 --to 1 >"$tmp/build.log" 2>&1
if [ $? -ne 0 ]; then tail -20 "$tmp/build.log"; rm -rf "$tmp"; exit 2; fi
i=0
while [ $i -lt $procs ]; do
  from=$((1 + i * per)); to=$((from + per))
  ( MIRIFLAGS="-Zmiri-disable-isolation" cargo +nightly miri run --offline --quiet --features "$feats" -- inproc "$prop" selfcheck --seed "$seed" --from $from --to $to --max-steps $maxsteps >"$tmp/$i.log" 2>&1; echo $? >"$tmp/$i.code" ) &
  i=$((i + 1))
done
wait
rc=0; runs=0
i=0
while [ $i -lt $procs ]; do
  code=$(cat "$tmp/$i.code" 2>/dev/null || echo 2)
  if grep -q "Undefined Behavior" "$tmp/$i.log"; then rc=1; grep -B2 -A25 "Undefined Behavior" "$tmp/$i.log" | head -60; fi
  if grep -q "^FOUND " "$tmp/$i.log"; then rc=1; grep "^FOUND " "$tmp/$i.log"; fi
  if [ "$code" != "0" ] && [ $rc -eq 0 ]; then rc=2; tail -5 "$tmp/$i.log"; fi
  runs=$((runs + $(grep -c "^run .* ok" "$tmp/$i.log")))
  i=$((i + 1))
done
echo "miri $prop seed=$seed: $runs simulated runs interpreted in $procs processes, result $rc"
rm -rf "$tmp"
exit $rc
