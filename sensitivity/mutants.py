"""Deliberate property-breaking edits (each compiles and passes the 36 baseline tests).
(id, property, file, old, new, what it needs to manifest)"""
M = [
 # ---------------- C04
 ("c04-floor-char-window", "C04", "src/webauthn.rs", "let lower_bound = index.saturating_sub(3);", "let lower_bound = index.saturating_sub(1);",
  "a 3- or 4-byte character whose first byte lies 2-3 bytes before offset 64 of a name (unwrap_unchecked on None: UB / abort)"),
 ("c04-filter-push-unwrap", "C04", "src/webauthn.rs", "values.0.push(el).ok();", "values.0.push(el).unwrap();",
  "three or more known algorithm entries in pubKeyCredParams"),
 ("c04-formats-push-unwrap", "C04", "src/ctap2.rs", "preference.known_formats.push(format).ok();", "preference.known_formats.push(format).unwrap();",
  "three or more known formats in attestationFormatsPreference"),
 ("c04-icon-try-from", "C04", "src/webauthn.rs", "match s.parse::<String<L>>() {", "#[allow(clippy::unnecessary_fallible_conversions)]\n    match String::try_from(s) {",
  "user icon longer than 128 bytes (the defect repaired by the fix commit)"),
 ("c04-empty-guard", "C04", "src/ctap2.rs", "        if data.is_empty() {\n            return Err(\n                CtapMappingError::ParsingError(cbor_smol::Error::DeserializeUnexpectedEnd).into(),\n            );\n        }\n\n        let (&op, data) = data.split_first().ok_or(CtapMappingError::ParsingError(\n            cbor_smol::Error::DeserializeUnexpectedEnd,\n        ))?;",
  "        let op = data[0];\n        let data = &data[1..];", "an empty message"),
 # ---------------- C05
 ("c05-missing-as-invalid-cbor", "C05", "src/ctap2.rs", "cbor_smol::Error::SerdeMissingField => Error::MissingParameter,", "cbor_smol::Error::SerdeMissingField => Error::InvalidCbor,", "a request lacking a required parameter"),
 ("c05-default-invalid-parameter", "C05", "src/ctap2.rs", "                _ => Error::InvalidCbor,", "                _ => Error::InvalidParameter,", "any malformed CBOR"),
 ("c05-rpid-default", "C05", "src/webauthn.rs", "pub struct PublicKeyCredentialRpEntity {\n    pub id: String<256>,", "pub struct PublicKeyCredentialRpEntity {\n    #[serde(default)]\n    pub id: String<256>,", "an rp entity without id"),
 ("c05-unsupported-as-cbor", "C05", "src/ctap2.rs", "                return Err(CtapMappingError::InvalidCommand(op).into());", "                return Err(CtapMappingError::ParsingError(cbor_smol::Error::DeserializeBadMajor).into());", "command bytes 0x09, 0x0D, 0x40"),
 ("c05-descriptor-type-default", "C05", "src/webauthn.rs", "pub struct PublicKeyCredentialDescriptorRef<'a> {\n    pub id: &'a serde_bytes::Bytes,\n    #[serde(rename = \"type\")]", "pub struct PublicKeyCredentialDescriptorRef<'a> {\n    pub id: &'a serde_bytes::Bytes,\n    #[serde(rename = \"type\", default)]", "an allow/exclude list entry without type"),
 # ---------------- C07
 ("c07-counter-le", "C07", "src/ctap2.rs", ".extend_from_slice(&self.sign_count.to_be_bytes())", ".extend_from_slice(&self.sign_count.to_le_bytes())", "a counter that is not a byte palindrome"),
 ("c07-idlen-le", "C07", "src/ctap2/make_credential.rs", ".extend_from_slice(&credential_id_len.to_be_bytes())", ".extend_from_slice(&credential_id_len.to_le_bytes())", "credential id length with differing bytes"),
 ("c07-key-copy-ok", "C07", "src/ctap2/make_credential.rs", "        buffer\n            .extend_from_slice(self.credential_public_key)\n            .map_err(|_| Error::Other)?;", "        buffer\n            .extend_from_slice(self.credential_public_key)\n            .ok();", "overflow inside the public key: silently shortened result"),
 ("c07-uv-bit", "C07", "src/ctap2.rs", "const USER_VERIFIED = 1 << 2;", "const USER_VERIFIED = 1 << 1;", "UV flag set"),
 ("c07-ext-err-swallowed", "C07", "src/ctap2.rs", "cbor_smol::cbor_serialize_to(extensions, &mut bytes).map_err(|_| Error::Other)?;", "cbor_smol::cbor_serialize_to(extensions, &mut bytes).ok();", "overflow inside the extension map: partial data returned"),
 # ---------------- C09
 ("c09-counter-le", "C09", "src/ctap1.rs", "buf.extend_from_slice(&auth.count.to_be_bytes())?;", "buf.extend_from_slice(&auth.count.to_le_bytes())?;", "counter that is not a byte palindrome (the test uses 1... in 4 bytes BE vs LE differs; test vector catches count=1!)"),
 ("c09-clear-first", "C09", "src/ctap1.rs", "            Response::Version(version) => buf.extend_from_slice(version),", "            Response::Version(version) => {\n                buf.clear();\n                buf.extend_from_slice(version)\n            }", "a pre-filled buffer and a version response"),
 ("c09-kh-len-skipped-when-empty", "C09", "src/ctap1.rs", "                buf.push(reg.key_handle.len() as u8).map_err(drop)?;", "                if !reg.key_handle.is_empty() {\n                    buf.push(reg.key_handle.len() as u8).map_err(drop)?;\n                }", "an empty key handle"),
 ("c09-sig-unwrap", "C09", "src/ctap1.rs", "                buf.extend_from_slice(&auth.signature)\n", "                buf.extend_from_slice(&auth.signature).unwrap();\n                Ok(())\n", "buffer becoming full inside the authentication signature"),
 ("c09-cert-truncated-silently", "C09", "src/ctap1.rs", "                buf.extend_from_slice(&reg.attestation_certificate)?;", "                let room = buf.capacity() - buf.len();\n                let cert = &reg.attestation_certificate;\n                buf.extend_from_slice(&cert[..cert.len().min(room)])?;", "buffer full inside the certificate with an empty signature: reports success with a shortened certificate"),
 # ---------------- C10
 ("c10-reset-selection-swapped", "C10", "src/ctap2.rs", "                self.reset().inspect_err(|_e| {", "                self.selection().inspect_err(|_e| {", "a Reset request"),
 ("c10-gna-wrapped-as-ga", "C10", "src/ctap2.rs", "                Ok(Response::GetNextAssertion(\n                    self.get_next_assertion()", "                Ok(Response::GetAssertion(\n                    self.get_next_assertion()", "a GetNextAssertion request that succeeds"),
 ("c10-extra-get-info", "C10", "src/ctap2.rs", "                debug_now!(\"CTAP2.MC\");", "                debug_now!(\"CTAP2.MC\");\n                let _ = self.get_info();", "a MakeCredential request (two handlers run)"),
 ("c10-error-remapped", "C10", "src/ctap2.rs", "                Ok(Response::ClientPin(self.client_pin(request).inspect_err(\n                    |_e| {\n                        debug!(\"error: {:?}\", _e);\n                    },\n                )?))", "                Ok(Response::ClientPin(\n                    self.client_pin(request).map_err(|_| Error::Other)?,\n                ))", "a ClientPin handler failing with a status other than Other"),
 ("c10-default-large-blobs-other", "C10", "src/ctap2.rs", "        let _ = request;\n        Err(Error::InvalidCommand)", "        let _ = request;\n        Err(Error::Other)", "LargeBlobs sent to an authenticator without the extension"),
 ("c10-vendor-fixed-code", "C10", "src/ctap2.rs", "                self.vendor(*op).inspect_err(|_e| {", "                let _ = op;\n                self.vendor(VendorOperation::try_from(0x50).unwrap()).inspect_err(|_e| {", "a vendor command other than 0x50"),
 ("c10-rpc-ctap1-version-for-register", "C10", "src/ctap1.rs", "    fn call(&mut self, request: &Request<'_>) -> Result<Response> {\n        self.call_ctap1(request)", "    fn call(&mut self, request: &Request<'_>) -> Result<Response> {\n        if let Request::Register(_) = request {\n            return Ok(Response::Version(Self::version()));\n        }\n        self.call_ctap1(request)", "a U2F register through the generic Rpc entry point"),
 ("c10-selection-called-twice-on-error", "C10", "src/ctap2.rs", "                self.selection().inspect_err(|_e| {\n                    debug!(\"error: {:?}\", _e);\n                })?;", "                if self.selection().is_err() {\n                    self.selection()?;\n                }", "a Selection handler that fails: invoked twice"),
 # ---------------- C17
 ("c17-drop-last-byte", "C17", "src/ctap2.rs", "                buffer.resize_default(l + 1).ok();", "                buffer.resize_default(l).ok();", "any response with a body"),
 ("c17-no-final-resize", "C17", "src/ctap2.rs", "                buffer.resize_default(l + 1).ok();", "                let _ = l;", "any response shorter than the buffer"),
 ("c17-error-status-zero", "C17", "src/ctap2.rs", "            *status = Error::Other as u8;", "            *status = 0;", "a response that does not fit"),
 ("c17-error-keeps-capacity", "C17", "src/ctap2.rs", "            *status = Error::Other as u8;\n            buffer.resize_default(1).ok();", "            *status = Error::Other as u8;", "a response that does not fit: truncated body left behind"),
 ("c17-initial-resize-removed", "C17", "src/ctap2.rs", "        buffer.resize_default(buffer.capacity()).ok();\n        let (status, data) = buffer.split_first_mut().unwrap();", "        if buffer.is_empty() {\n            buffer.resize_default(buffer.capacity()).ok();\n        }\n        let (status, data) = buffer.split_first_mut().unwrap();", "a reused buffer still holding a shorter previous message"),
 # ---------------- C19
 ("c19-str-bytes-n", "C19", "src/arbitrary.rs", "            let valid = u.bytes(i)?;", "            let valid = u.bytes(n)?;", "ill-formed UTF-8 inside the window of a generated string"),
 ("c19-bytes-min-removed", "C19", "src/arbitrary.rs", "    let n = usize::arbitrary(u)?.min(N);\n    Ok(Bytes::from_slice(u.bytes(n)?).unwrap())", "    let n = usize::arbitrary(u)?.min(N + 1);\n    Ok(Bytes::from_slice(u.bytes(n)?).unwrap())", "a length prefix above the capacity of a byte field"),
 ("c19-vec-bound-plus-one", "C19", "src/arbitrary.rs", "    u.arbitrary_loop(Some(0), Some(N.try_into().unwrap()), |u| {", "    u.arbitrary_loop(Some(0), Some((N + 1).try_into().unwrap()), |u| {", "entropy that keeps the list loop going past the capacity"),
]
