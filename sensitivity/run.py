#!/usr/bin/env python3
"""Sensitivity of the checks: apply each deliberate property-breaking edit to a scratch worktree
of /repo (never to /repo itself), confirm it builds and passes the baseline tests, run the
matching check (quick tier) against the scratch copy and expect a VIOLATION; also run the
check on the unmodified scratch copy and expect silence.

    ./run.py [mutant-id-substring ...] [--no-tests] [--all-checks]

Writes /verif/sensitivity/results.json. The scratch worktree is removed at the end."""
import json, os, subprocess, sys, time
sys.path.insert(0, os.path.dirname(os.path.abspath(__file__)))
from mutants import M

WT = "/tmp/verif-sens-wt"
VERIF = "/verif"
ALL = ["C04", "C05", "C07", "C09", "C10", "C17", "C19"]

def sh(cmd, **kw):
    kw.setdefault("timeout", 2400)
    try:
        return subprocess.run(cmd, stdout=subprocess.PIPE, stderr=subprocess.STDOUT, text=True, **kw)
    except subprocess.TimeoutExpired:
        return subprocess.CompletedProcess(cmd, 124, "TIMEOUT")

def main():
    args = [a for a in sys.argv[1:] if not a.startswith("--")]
    no_tests = "--no-tests" in sys.argv
    all_checks = "--all-checks" in sys.argv
    sh(["git", "-C", "/repo", "worktree", "remove", "--force", WT])
    r = sh(["git", "-C", "/repo", "worktree", "add", "--detach", WT, "HEAD"])
    if r.returncode != 0:
        print(r.stdout); return 2
    env = dict(os.environ, VERIF_REPO=WT, VERIF_REPLAY_DIR="/tmp/verif-sens-replays", CARGO_NET_OFFLINE="true")
    results = []
    try:
        for (mid, prop, path, old, new, needs) in M:
            if args and not any(a in mid for a in args):
                continue
            src = open(os.path.join(WT, path)).read()
            if old not in src:
                results.append({"id": mid, "property": prop, "status": "edit does not apply"}); print(mid, "EDIT DOES NOT APPLY"); continue
            open(os.path.join(WT, path), "w").write(src.replace(old, new, 1))
            t0 = time.time()
            rec = {"id": mid, "property": prop, "needs": needs}
            if not no_tests:
                t = sh(["cargo", "test", "--offline", "--quiet"], cwd=WT, env=dict(env, CARGO_TARGET_DIR=WT + "/target"))
                rec["baseline_tests_pass"] = t.returncode == 0
                if t.returncode != 0:
                    rec["baseline_tail"] = t.stdout.splitlines()[-6:]
            checks = ALL if all_checks else [prop]
            rec["checks"] = {}
            for c in checks:
                r = sh([os.path.join(VERIF, "check"), c, "quick"], cwd=VERIF, env=env)
                lines = [l for l in r.stdout.splitlines() if l.startswith("VIOLATION") or l.startswith("  rule=") or l.startswith("HARNESS-ERROR")]
                rec["checks"][c] = {"exit": r.returncode, "lines": lines[:6]}
            rec["detected"] = rec["checks"][prop]["exit"] == 1
            rec["others_silent"] = all(v["exit"] == 0 for k, v in rec["checks"].items() if k != prop)
            rec["wall_s"] = round(time.time() - t0, 1)
            results.append(rec)
            print(mid, "DETECTED" if rec["detected"] else "MISSED(exit %d)" % rec["checks"][prop]["exit"],
                  "" if no_tests else ("tests-pass" if rec["baseline_tests_pass"] else "TESTS-FAIL"),
                  " ".join("%s=%d" % (k, v["exit"]) for k, v in rec["checks"].items()), flush=True)
            sh(["git", "-C", WT, "checkout", "--", "."])
        if not args:
            clean = {}
            for c in ALL:
                r = sh([os.path.join(VERIF, "check"), c, "quick"], cwd=VERIF, env=env)
                clean[c] = r.returncode
            print("unmodified scratch copy:", clean)
            results.append({"id": "unmodified", "checks": clean})
    finally:
        sh(["git", "-C", "/repo", "worktree", "remove", "--force", WT])
        sh(["rm", "-rf", "/tmp/verif-sens-replays", os.path.join(VERIF, "target", "alt"), os.path.join(VERIF, "target", "alt-evidence")])
    out = os.path.join(VERIF, "sensitivity", "results.json" if not args else "results-partial.json")
    json.dump(results, open(out, "w"), indent=1)
    missed = [r["id"] for r in results if r.get("detected") is False]
    print("missed:", missed)
    return 0

if __name__ == "__main__":
    sys.exit(main())
