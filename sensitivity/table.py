#!/usr/bin/env python3
"""Regenerate section 13.1 of DESIGN.md from sensitivity/results.json (+ baseline-tests.json)."""
import json
V = "/verif"
res = json.load(open(V + "/sensitivity/results.json"))
tests = json.load(open(V + "/sensitivity/baseline-tests.json"))
lines = ["### 13.1 Own deliberate changes (`/verif/sensitivity/mutants.py`, run by `sensitivity/run.py` against a scratch worktree)", "",
 "Every change compiles; `tests` = the 36 baseline tests still pass with it (recorded once in `sensitivity/baseline-tests.json`). `check` = exit status of the matching quick check (1 = VIOLATION reported).", "",
 "| change | property | needs, to manifest | tests | check | rule that fired |", "|---|---|---|---|---|---|"]
for r in res:
    if r["id"] == "unmodified":
        continue
    c = r["checks"][r["property"]]
    rule = next((l.split("rule=")[1].split()[0] for l in c["lines"] if "rule=" in l), "")
    tp = r.get("baseline_tests_pass", tests.get(r["id"]))
    lines.append("| `%s` | %s | %s | %s | %d | `%s` |" % (r["id"], r["property"], r["needs"].replace("|", "/"), "pass" if tp else "FAIL", c["exit"], rule))
un = [r for r in res if r["id"] == "unmodified"]
if un:
    lines += ["", "Unmodified scratch copy, all seven quick checks: exit statuses %s (silent)." % json.dumps(un[0]["checks"])]
lines += ["`c09-counter-le` is listed although a baseline test kills it too (the U2F example vector has counter 1).", ""]
text = "\n".join(lines) + "\n"
s = open(V + "/DESIGN.md").read()
i = s.index("### 13.1 ")
j = s.index("### 13.2 ")
open(V + "/DESIGN.md", "w").write(s[:i] + text + s[j:])
print(len(res), "entries")
