//! Generates the capacity grid: one monomorphisation of the real
//! `ctap2::Response::serialize::<N>` per instantiated transport-buffer capacity N, and one of
//! `ctap1::Response::serialize::<S>` per caller-buffer capacity S.
use std::io::Write;

fn main() {
    let out = std::env::var("OUT_DIR").unwrap();
    let mut caps: Vec<usize> = (1..=1536).collect();
    for c in [2048usize, 3072, 4096, 7609] {
        for d in 0..=4 {
            caps.push(c + d - 2);
        }
    }
    caps.sort();
    caps.dedup();
    let mut f = std::fs::File::create(format!("{}/tx_grid.rs", out)).unwrap();
    writeln!(f, "pub const TX_CAPS: [usize; {}] = {:?};", caps.len(), caps).unwrap();
    writeln!(f, "pub fn new_tx(n: usize) -> Option<Box<dyn TxBuf>> {{ Some(match n {{").unwrap();
    for c in &caps {
        writeln!(f, "  {} => Box::new(heapless::Vec::<u8, {}>::new()),", c, c).unwrap();
    }
    writeln!(f, "  _ => return None, }}) }}").unwrap();

    let mut scaps: Vec<usize> = (0..=96).collect();
    scaps.extend([128, 255, 256, 257, 512, 1024, 1434, 1435, 1436, 1536, 2048, 7609]);
    scaps.sort();
    scaps.dedup();
    let mut f = std::fs::File::create(format!("{}/u2f_grid.rs", out)).unwrap();
    writeln!(f, "pub const U2F_CAPS: [usize; {}] = {:?};", scaps.len(), scaps).unwrap();
    writeln!(f, "pub fn new_u2f(n: usize) -> Option<Box<dyn U2fBuf>> {{ Some(match n {{").unwrap();
    for c in &scaps {
        writeln!(f, "  {} => Box::new(iso7816::Data::<{}>::new()),", c, c).unwrap();
    }
    writeln!(f, "  _ => return None, }}) }}").unwrap();
    println!("cargo:rerun-if-changed=build.rs");
}
