//! C09 — CTAP1/U2F responses: raw-message layout, append-only, clean failure when full.
//!
//! The caller's `iso7816::Data<S>` persists across the session and is pre-filled; the free
//! space `S - prefill` is swept through every offset of every part of the response.

use crate::core::Stats;
use crate::guard::guard;
use crate::json::{self, obj, s, J};
use crate::prng::Rng;
use crate::trace::{Device, Finding, Log, Step};
use ctap_types::ctap1;
use ctap_types::Bytes;

pub const REQUIRED_PROBES: [&str; 8] =
    ["free_exact", "free_one_short", "full_inside_part", "capacity_zero", "prefill_previous_response", "register_via_new", "counter_be_boundary", "ok_appended"];

pub trait U2fBuf {
    fn cap(&self) -> usize;
    fn bytes(&self) -> &[u8];
    /// keep what the previous response left and cut / pad it to `len` bytes (sentinel 0xA7 padding)
    fn set_len(&mut self, len: usize, keep_previous: bool);
    fn serialize(&mut self, r: &ctap1::Response) -> Result<(), ()>;
}

impl<const S: usize> U2fBuf for iso7816::Data<S> {
    fn cap(&self) -> usize {
        S
    }
    fn bytes(&self) -> &[u8] {
        self
    }
    fn set_len(&mut self, len: usize, keep_previous: bool) {
        if !keep_previous {
            self.clear();
        }
        let len = len.min(S);
        if self.len() > len {
            self.truncate(len);
        }
        while self.len() < len {
            let b = 0xA7u8 ^ (self.len() as u8);
            let _ = self.push(b);
        }
    }
    fn serialize(&mut self, r: &ctap1::Response) -> Result<(), ()> {
        r.serialize(self)
    }
}

include!(concat!(env!("OUT_DIR"), "/u2f_grid.rs"));

#[derive(Clone, Debug, PartialEq)]
pub struct U2fSpec {
    /// 0 register (fields set directly), 1 register built by `register::Response::new`, 2 authenticate, 3 version
    pub kind: u8,
    pub header: u8,
    pub kh_len: usize,
    pub cert_len: usize,
    pub sig_len: usize,
    pub count: u32,
    /// length of the public key field for kind 0 (0..=65); kind 1 always builds 65 bytes
    pub pk_len: usize,
    pub fill: u64,
    pub cap: usize,
    pub prefill: usize,
    /// keep the bytes of the previous response as the prefix (else sentinel)
    pub keep_previous: bool,
}

impl U2fSpec {
    pub fn to_json(&self) -> J {
        obj(vec![
            ("op", s("u2f_respond")),
            ("kind", json::i(self.kind)),
            ("header", json::i(self.header)),
            ("kh_len", json::i(self.kh_len)),
            ("cert_len", json::i(self.cert_len)),
            ("sig_len", json::i(self.sig_len)),
            ("count", json::i(self.count)),
            ("pk_len", json::i(self.pk_len)),
            ("fill", s(format!("{:x}", self.fill))),
            ("cap", json::i(self.cap)),
            ("prefill", json::i(self.prefill)),
            ("keep_previous", J::Bool(self.keep_previous)),
        ])
    }
    pub fn from_json(j: &J) -> Option<U2fSpec> {
        let g = |k: &str| j.get(k).and_then(|x| x.int());
        Some(U2fSpec {
            kind: g("kind")? as u8,
            header: g("header")? as u8,
            kh_len: g("kh_len")? as usize,
            cert_len: g("cert_len")? as usize,
            sig_len: g("sig_len")? as usize,
            count: g("count")? as u32,
            pk_len: g("pk_len")? as usize,
            fill: u64::from_str_radix(j.get("fill")?.str()?, 16).ok()?,
            cap: g("cap")? as usize,
            prefill: g("prefill")? as usize,
            keep_previous: j.get("keep_previous")?.bool()?,
        })
    }
    pub fn shrinks(&self) -> Vec<U2fSpec> {
        let mut out = Vec::new();
        let mut push = |f: &dyn Fn(&mut U2fSpec)| {
            let mut q = self.clone();
            f(&mut q);
            if q != *self {
                out.push(q);
            }
        };
        push(&|q| q.kh_len = 0);
        push(&|q| q.kh_len /= 2);
        push(&|q| q.cert_len = 0);
        push(&|q| q.cert_len /= 2);
        push(&|q| q.sig_len = 0);
        push(&|q| q.sig_len /= 2);
        push(&|q| q.count = 0);
        push(&|q| q.header = 0);
        push(&|q| q.fill = 0);
        push(&|q| q.prefill = 0);
        push(&|q| q.prefill /= 2);
        push(&|q| q.keep_previous = false);
        for c in U2F_CAPS.iter().rev() {
            if *c < self.cap {
                let mut q = self.clone();
                q.cap = *c;
                q.prefill = q.prefill.min(*c);
                out.push(q);
                break;
            }
        }
        out
    }
}

fn fb(fill: u64, tag: u64, n: usize) -> Vec<u8> {
    Rng::new(fill, tag, 9).content(n)
}

/// Certificate / signature content as real authenticators hold it: DER SEQUENCE headers whose announced
/// length is exact, shorter than the member (a padded slot) or longer than it; or plain random bytes.
fn der_like(fill: u64, tag: u64, n: usize) -> Vec<u8> {
    let mut b = fb(fill, tag, n);
    let style = (fill >> 8).wrapping_add(tag) % 6;
    if style == 0 || n < 2 {
        return b;
    }
    b[0] = 0x30;
    let announced = |inner: usize| -> usize {
        match style {
            1 | 2 => inner,
            3 => inner.saturating_sub(1 + (fill as usize >> 16) % 16),
            4 => inner + 1 + (fill as usize >> 16) % 300,
            _ => 0,
        }
    };
    if n >= 4 && (n - 4 > 127 || style == 2) {
        // long form, two length bytes
        let a = announced(n - 4).min(0xffff);
        b[1] = 0x82;
        b[2] = (a >> 8) as u8;
        b[3] = a as u8;
    } else if n >= 3 && n - 3 > 127 {
        b[1] = 0x81;
        b[2] = announced(n - 3).min(0xff) as u8;
    } else {
        b[1] = announced(n - 2).min(0x7f) as u8;
    }
    b
}

/// Build the real response value and, independently, the bytes the U2F raw message format prescribes.
pub fn build(x: &U2fSpec) -> (ctap1::Response, Vec<u8>) {
    match x.kind {
        0 | 1 => {
            let kh = fb(x.fill, 1, x.kh_len.min(255));
            let cert = der_like(x.fill, 2, x.cert_len.min(1024));
            let sig = der_like(x.fill, 3, x.sig_len.min(72));
            let (resp, pk) = if x.kind == 1 {
                let px = fb(x.fill, 4, 32);
                let py = fb(x.fill, 5, 32);
                let key = cosey::EcdhEsHkdf256PublicKey { x: Bytes::from_slice(&px).unwrap(), y: Bytes::from_slice(&py).unwrap() };
                let r = ctap1::register::Response::new(
                    x.header,
                    &key,
                    Bytes::from_slice(&kh).unwrap(),
                    Bytes::from_slice(&sig).unwrap(),
                    Bytes::from_slice(&cert).unwrap(),
                );
                let mut pk = vec![0x04];
                pk.extend_from_slice(&px);
                pk.extend_from_slice(&py);
                (r, pk)
            } else {
                let pk = fb(x.fill, 6, x.pk_len.min(65));
                let r = ctap1::register::Response {
                    header_byte: x.header,
                    public_key: Bytes::from_slice(&pk).unwrap(),
                    key_handle: Bytes::from_slice(&kh).unwrap(),
                    attestation_certificate: Bytes::from_slice(&cert).unwrap(),
                    signature: Bytes::from_slice(&sig).unwrap(),
                };
                (r, pk)
            };
            // U2F raw message format, registration response:
            // reserved byte || public key || key-handle length || key handle || certificate || signature
            let mut model = vec![x.header];
            model.extend_from_slice(&pk);
            model.push(kh.len() as u8);
            model.extend_from_slice(&kh);
            model.extend_from_slice(&cert);
            model.extend_from_slice(&sig);
            (ctap1::Response::Register(resp), model)
        }
        2 => {
            let sig = der_like(x.fill, 7, x.sig_len.min(72));
            let r = ctap1::authenticate::Response { user_presence: x.header, count: x.count, signature: Bytes::from_slice(&sig).unwrap() };
            // user presence || counter (big-endian) || signature
            let mut model = vec![x.header];
            model.push((x.count >> 24) as u8);
            model.push((x.count >> 16) as u8);
            model.push((x.count >> 8) as u8);
            model.push(x.count as u8);
            model.extend_from_slice(&sig);
            (ctap1::Response::Authenticate(r), model)
        }
        _ => {
            let r: [u8; 6] = fb(x.fill, 8, 6).try_into().unwrap();
            let v: [u8; 6] = match x.fill % 8 {
                0 | 1 => *b"U2F_V2",
                2 => [0; 6],
                3 => [r[0], r[1], r[2], r[3], r[4], 0],
                4 => [0, r[1], r[2], r[3], r[4], r[5]],
                5 => [r[0], r[1], 0, 0, 0, 0],
                6 => [0xff; 6],
                _ => r,
            };
            (ctap1::Response::Version(v), v.to_vec())
        }
    }
}

fn finding(rule: &str, detail: String) -> Option<Finding> {
    Some(Finding { rule: rule.into(), detail })
}

pub fn exec(dev: &mut Device, x: &U2fSpec, log: &mut Log) -> Option<Finding> {
    let (resp, model) = match guard(|| build(x)) {
        Ok(v) => v,
        Err(p) => {
            // `register::Response::new` is real code too
            log.event("u2f: PANIC while building the response");
            return finding("panic", format!("building the response panicked: {}", p));
        }
    };
    if !dev.u2f.contains_key(&x.cap) {
        match new_u2f(x.cap) {
            Some(b) => {
                dev.u2f.insert(x.cap, b);
            }
            None => {
                dev.last_outcome = "harness-no-such-capacity".into();
                return None;
            }
        }
    }
    let buf = dev.u2f.get_mut(&x.cap).unwrap();
    buf.set_len(x.prefill, x.keep_previous);
    let before: Vec<u8> = buf.bytes().to_vec();
    let free = x.cap - before.len();
    let r = guard(|| buf.serialize(&resp));
    let after: Vec<u8> = buf.bytes().to_vec();
    let res = match r {
        Ok(r) => r,
        Err(p) => {
            log.event(&format!("u2f kind={} cap={} prefill={} -> PANIC", x.kind, x.cap, before.len()));
            return finding("panic", format!("serialising a {}-byte response into capacity {} with {} bytes free panicked: {}", model.len(), x.cap, free, p));
        }
    };
    log.event(&format!("u2f kind={} total={} cap={} prefill={} -> {:?} len={} h={:016x}", x.kind, model.len(), x.cap, before.len(), res.is_ok(), after.len(), crate::prng::fnv(&after)));
    dev.last_outcome = format!("{}:{}:{}", if res.is_ok() { "ok" } else { "err" }, model.len() as i64 - free as i64, x.kind);
    let fits = model.len() <= free;
    match res {
        Ok(()) => {
            if !fits {
                return finding("ok_but_no_room", format!("response of {} bytes reported success with only {} bytes free (capacity {})", model.len(), free, x.cap));
            }
            if after.len() != before.len() + model.len() {
                return finding("appended_length", format!("appended {} bytes, the parts sum to {}", after.len() as i64 - before.len() as i64, model.len()));
            }
            if after[..before.len()] != before[..] {
                return finding("prefix_disturbed", format!("the {} bytes already in the buffer were changed by a successful call", before.len()));
            }
            if after[before.len()..] != model[..] {
                let at = after[before.len()..].iter().zip(model.iter()).position(|(a, b)| a != b).unwrap_or(0);
                return finding(
                    "layout",
                    format!("appended bytes differ from the U2F raw message layout at offset {} (kind {}): got {}.. expected {}..", at, x.kind, json::hex(&after[before.len() + at..(before.len() + at + 8).min(after.len())]), json::hex(&model[at..(at + 8).min(model.len())])),
                );
            }
        }
        Err(()) => {
            if fits {
                return finding("err_but_room", format!("response of {} bytes reported failure with {} bytes free (capacity {})", model.len(), free, x.cap));
            }
            if after.len() < before.len() || after[..before.len()] != before[..] {
                return finding("prefix_disturbed", format!("the {} bytes already in the buffer were changed by a failing call", before.len()));
            }
        }
    }
    None
}

pub fn plan(tier: &str) -> u64 {
    match tier {
        "thorough" => 400_000,
        "selfcheck" => 20_000,
        _ => 4_000,
    }
}

pub fn gen(seed: u64, run: u64, tier: &str) -> Vec<Step> {
    let mut rng = Rng::new(seed, run, 9);
    let kind = match run % 8 {
        0 | 1 | 2 => 1,
        3 => 0,
        4 | 5 => 2,
        6 => 2,
        _ => 3,
    } as u8;
    let counts = [0u32, 1, 0xff, 0x100, 0xffff, 0x1_0000, 0x00ff_ffff, 0x0100_0000, 0x0102_0304, 0x8000_0000, 0xffff_ffff];
    let certs = [0usize, 1, 127, 128, 255, 256, 1023, 1024];
    let lat = |rng: &mut Rng, max: usize| -> usize {
        match rng.below(5) {
            0 => 0,
            1 => max,
            2 => max.saturating_sub(1),
            3 => 1.min(max),
            _ => rng.usize_below(max + 1),
        }
    };
    let base = U2fSpec {
        kind,
        header: if rng.coin() { 0x05 } else { rng.next() as u8 },
        kh_len: if run % 3 == 0 { (run / 3 % 256) as usize } else { lat(&mut rng, 255) },
        cert_len: if rng.coin() { *rng.pick(&certs) } else { rng.usize_below(1025) },
        sig_len: if run % 5 == 0 { (run / 5 % 73) as usize } else { lat(&mut rng, 72) },
        count: if rng.chance(2, 3) { *rng.pick(&counts) } else { rng.next() as u32 },
        pk_len: lat(&mut rng, 65),
        fill: rng.next(),
        cap: 0,
        prefill: 0,
        keep_previous: false,
    };
    // corner runs: every trailing part empty / every part at its maximum
    let base = match run % 16 {
        15 => U2fSpec { kh_len: 0, cert_len: 0, sig_len: 0, ..base },
        14 => U2fSpec { kh_len: 255, cert_len: 1024, sig_len: 72, pk_len: 65, ..base },
        13 => U2fSpec { kh_len: 0, cert_len: 0, pk_len: 0, ..base },
        12 => U2fSpec { cert_len: 0, sig_len: 0, ..base },
        _ => base,
    };
    let (_, model) = build(&base);
    let total = model.len();
    // part boundaries of the model
    let mut bounds: Vec<usize> = match kind {
        0 | 1 => {
            let pk = if kind == 1 { 65 } else { base.pk_len.min(65) };
            vec![0, 1, 1 + pk, 2 + pk, 2 + pk + base.kh_len.min(255), 2 + pk + base.kh_len.min(255) + base.cert_len.min(1024), total]
        }
        2 => vec![0, 1, 5, total],
        _ => vec![0, total],
    };
    bounds.dedup();
    let mut steps = Vec::new();
    let dense = tier != "selfcheck";
    // capacities: a few per run, all of them over the batch
    let mut caps: Vec<usize> = vec![0, 1, *rng.pick(&U2F_CAPS), *rng.pick(&U2F_CAPS)];
    for big in [1024usize, 1536, 2048, 7609, 256, 64] {
        if caps.len() < 7 && (rng.coin() || big >= total) {
            caps.push(big);
        }
    }
    caps.sort();
    caps.dedup();
    for cap in caps {
        // free space f = cap - prefill swept over 0 ..= total + 2 (as far as the capacity allows)
        let mut frees: Vec<usize> = Vec::new();
        let top = (total + 2).min(cap);
        if dense && top <= 200 {
            frees.extend(0..=top);
        } else {
            for b in &bounds {
                for d in 0..=4usize {
                    let f = (b + d).saturating_sub(2);
                    if f <= cap {
                        frees.push(f);
                    }
                }
            }
            for _ in 0..if dense { 24 } else { 4 } {
                frees.push(rng.usize_below(top + 1));
            }
            frees.push(top);
            frees.push(cap);
            frees.push(0);
        }
        frees.sort();
        frees.dedup();
        // order is part of the schedule
        for i in (1..frees.len()).rev() {
            let j = rng.usize_below(i + 1);
            frees.swap(i, j);
        }
        for f in frees {
            steps.push(Step::U2fRespond(U2fSpec { cap, prefill: cap - f, keep_previous: rng.coin(), ..base.clone() }));
        }
    }
    steps
}

pub fn account(step: &Step, outcome: &str, stats: &mut Stats) {
    if let Step::U2fRespond(x) = step {
        stats.evaluations += 1;
        stats.real_calls += 1;
        stats.fault("free");
        if x.prefill > 0 {
            stats.fault("prefill");
        }
        let mut it = outcome.split(':');
        let ok = it.next() == Some("ok");
        let short: i64 = it.next().and_then(|d| d.parse().ok()).unwrap_or(0);
        if short == 0 {
            stats.probe("free_exact");
        }
        if short == 1 {
            stats.probe("free_one_short");
        }
        if short > 1 && !ok {
            stats.probe("full_inside_part");
        }
        if x.cap == 0 {
            stats.probe("capacity_zero");
        }
        if x.keep_previous && x.prefill > 0 {
            stats.probe("prefill_previous_response");
        }
        if x.kind == 1 {
            stats.probe("register_via_new");
        }
        if x.kind == 2 && [0xffu32, 0x100, 0xffff, 0x1_0000, 0x0102_0304, 0xffff_ffff].contains(&x.count) {
            stats.probe("counter_be_boundary");
        }
        if ok {
            stats.probe("ok_appended");
        }
        stats.distinct(&[&x.kind.to_string(), &x.kh_len.to_string(), &x.cert_len.to_string(), &x.sig_len.to_string(), &short.clamp(-3, 3).to_string(), &x.cap.to_string()]);
        if stats.evaluations % 15013 == 1 {
            let mut j = x.to_json();
            j.set("outcome", s(outcome));
            stats.sample(j);
        }
    }
}
