//! simctl — deterministic simulation of host / link / device / authenticator around
//! the real `ctap-types` code. See /verif/DESIGN.md.

#![allow(dead_code)]
mod c04;
mod c05;
mod c07;
mod c09;
mod c10;
mod c17;
mod c19;
mod cbor;
mod core;
mod faults;
mod guard;
mod json;
mod prng;
mod real;
mod runner;
mod schema;
mod trace;

use json::{obj, s, J};
use std::path::PathBuf;
use trace::Prop;

fn arg_val(args: &[String], name: &str) -> Option<String> {
    args.iter().position(|a| a == name).and_then(|i| args.get(i + 1).cloned())
}

fn usage() -> i32 {
    eprintln!(
        "usage:\n  simctl run <PROP> <quick|thorough> [--seed N] [--workers N] --out FILE [--replay-dir DIR] [--tmp DIR] [--runs N]\n  simctl worker <PROP> <tier> --seed N --from A --to B --out FILE [--journal FILE] [--step-journal] [--run-hashes FILE]\n  simctl replay <FILE>\n  simctl trace <PROP> <tier> --seed N --run R\n  simctl features"
    );
    2
}

fn main() {
    let args: Vec<String> = std::env::args().collect();
    let code = real_main(&args);
    std::process::exit(code);
}

fn real_main(args: &[String]) -> i32 {
    guard::install_hook();
    install_logger();
    if args.len() < 2 {
        return usage();
    }
    match args[1].as_str() {
        "features" => {
            println!("{}", core::feature_set());
            0
        }
        "worker" => {
            let (Some(prop), Some(tier)) = (args.get(2).and_then(|p| Prop::parse(p)), args.get(3)) else { return usage() };
            let a = runner::WorkerArgs {
                prop,
                tier: tier.clone(),
                seed: arg_val(args, "--seed").and_then(|v| v.parse().ok()).unwrap_or(1),
                from: arg_val(args, "--from").and_then(|v| v.parse().ok()).unwrap_or(0),
                to: arg_val(args, "--to").and_then(|v| v.parse().ok()).unwrap_or(0),
                journal: arg_val(args, "--journal").map(PathBuf::from),
                step_journal: args.iter().any(|x| x == "--step-journal"),
                out: PathBuf::from(arg_val(args, "--out").unwrap_or_else(|| "/dev/null".into())),
                run_hashes: arg_val(args, "--run-hashes").map(PathBuf::from),
            };
            runner::on_big_stack(move || runner::worker(&a))
        }
        "replay" => {
            let Some(p) = args.get(2) else { return usage() };
            runner::replay(&PathBuf::from(p))
        }
        "range" => {
            // runs from..=run of one seed in this process; prints what happens at the last one
            let (Some(prop), Some(tier)) = (args.get(2).and_then(|p| Prop::parse(p)), args.get(3).cloned()) else { return usage() };
            let seed = arg_val(args, "--seed").and_then(|v| v.parse().ok()).unwrap_or(1);
            let from: u64 = arg_val(args, "--from").and_then(|v| v.parse().ok()).unwrap_or(0);
            let run: u64 = arg_val(args, "--run").and_then(|v| v.parse().ok()).unwrap_or(0);
            let (res, hash, _) = runner::on_big_stack(move || runner::run_range(prop, seed, &tier, from, run + 1, run));
            match res {
                Some((k, f)) => {
                    println!("RANGE-FINDING run={} step={} rule={} log_hash={:016x}", run, k, f.rule, hash);
                    1
                }
                None => {
                    println!("RANGE-CLEAN run={} log_hash={:016x}", run, hash);
                    0
                }
            }
        }
        "trace" => {
            let (Some(prop), Some(tier)) = (args.get(2).and_then(|p| Prop::parse(p)), args.get(3)) else { return usage() };
            let seed = arg_val(args, "--seed").and_then(|v| v.parse().ok()).unwrap_or(1);
            let run = arg_val(args, "--run").and_then(|v| v.parse().ok()).unwrap_or(0);
            let steps = runner::gen(prop, seed, run, tier);
            println!("{}", J::Arr(steps.iter().map(|x| x.to_json()).collect()).pretty());
            0
        }
        "stackchild" => {
            // decode the deepest nesting the message limit allows on a thread with the given stack size
            let size: usize = args.get(2).and_then(|v| v.parse().ok()).unwrap_or(1 << 20);
            let kind: u8 = args.get(3).and_then(|v| v.parse().ok()).unwrap_or(0);
            let h = std::thread::Builder::new().stack_size(size).spawn(move || {
                let msg = stack_probe_message(kind);
                let ok = ctap_types::ctap2::Request::deserialize(&msg).is_ok();
                let _ = ok;
                0
            });
            match h {
                Ok(j) => j.join().unwrap_or(3),
                Err(_) => 3,
            }
        }
        "stackprobe" => {
            // smallest power-of-two stack on which the deepest nesting decodes without the process dying
            let exe = std::env::current_exe().expect("current_exe");
            let mut out = Vec::new();
            for kind in 0..3u8 {
                let mut size = 16usize << 10;
                let mut ok_at = None;
                while size <= (64 << 20) {
                    let st = std::process::Command::new(&exe).arg("stackchild").arg(size.to_string()).arg(kind.to_string()).stdout(std::process::Stdio::null()).stderr(std::process::Stdio::null()).status();
                    if matches!(st, Ok(s) if s.code() == Some(0)) {
                        ok_at = Some(size);
                        break;
                    }
                    size *= 2;
                }
                out.push(obj(vec![
                    ("nesting", s(["arrays inside an unknown options member", "maps inside an unknown options member", "tags inside an unknown options member"][kind as usize])),
                    ("levels", json::i(stack_probe_levels(kind))),
                    ("smallest_sufficient_stack_bytes_power_of_two", match ok_at { Some(v) => json::i(v), None => J::Null }),
                ]));
            }
            println!("{}", J::Arr(out).compact());
            0
        }
        "inproc" => {
            // in-process execution of a run range without worker processes or files: what Miri interprets
            let (Some(prop), Some(tier)) = (args.get(2).and_then(|p| Prop::parse(p)), args.get(3)) else { return usage() };
            let seed: u64 = arg_val(args, "--seed").and_then(|v| v.parse().ok()).unwrap_or(1);
            let from: u64 = arg_val(args, "--from").and_then(|v| v.parse().ok()).unwrap_or(0);
            let to: u64 = arg_val(args, "--to").and_then(|v| v.parse().ok()).unwrap_or(1);
            let max_steps: usize = arg_val(args, "--max-steps").and_then(|v| v.parse().ok()).unwrap_or(usize::MAX);
            let mut steps_total = 0u64;
            for run in from..to {
                let mut steps = runner::gen(prop, seed, run, tier);
                steps.truncate(max_steps);
                steps_total += steps.len() as u64;
                let (res, log, _) = trace::run_trace(&steps, prop, false);
                if let Some((k, f)) = res {
                    println!("FOUND property={} run={} step={} rule={} detail={}", prop.id(), run, k, f.rule, f.detail);
                    return 1;
                }
                println!("run {} ok: {} steps, log {:016x}", run, steps.len(), log.hash());
            }
            println!("inproc {} runs {}..{} ok, {} steps", prop.id(), from, to, steps_total);
            0
        }
        "finalise" => {
            let (Some(prop), Some(tier)) = (args.get(2).and_then(|p| Prop::parse(p)), args.get(3)) else { return usage() };
            let (Some(vf), Some(of)) = (arg_val(args, "--violation"), arg_val(args, "--out")) else { return usage() };
            let a = runner::RunArgs {
                prop,
                tier: tier.clone(),
                seed: arg_val(args, "--seed").and_then(|v| v.parse().ok()).unwrap_or(1),
                workers: arg_val(args, "--workers").and_then(|v| v.parse().ok()).unwrap_or(16),
                out: PathBuf::from("/dev/null"),
                replay_dir: PathBuf::from(arg_val(args, "--replay-dir").unwrap_or_else(|| "/verif/replays".into())),
                tmp: PathBuf::from(arg_val(args, "--tmp").unwrap_or_else(|| "/verif/target/tmp".into())),
                runs_override: arg_val(args, "--runs").and_then(|v| v.parse().ok()),
                time_limit_s: 0,
            };
            runner::on_big_stack(move || runner::finalise_child(&a, &PathBuf::from(vf), &PathBuf::from(of)))
        }
        "run" => {
            let (Some(prop), Some(tier)) = (args.get(2).and_then(|p| Prop::parse(p)), args.get(3)) else { return usage() };
            let out = PathBuf::from(arg_val(args, "--out").unwrap_or_else(|| "/dev/null".into()));
            let a = runner::RunArgs {
                prop,
                tier: tier.clone(),
                seed: arg_val(args, "--seed").and_then(|v| v.parse().ok()).unwrap_or(1),
                workers: arg_val(args, "--workers").and_then(|v| v.parse().ok()).unwrap_or(16),
                out: out.clone(),
                replay_dir: PathBuf::from(arg_val(args, "--replay-dir").unwrap_or_else(|| "/verif/replays".into())),
                tmp: PathBuf::from(arg_val(args, "--tmp").unwrap_or_else(|| "/verif/target/tmp".into())),
                runs_override: arg_val(args, "--runs").and_then(|v| v.parse().ok()),
                time_limit_s: arg_val(args, "--time-limit").and_then(|v| v.parse().ok()).unwrap_or(if tier == "thorough" { 10_800 } else { 420 }),
            };
            run_cmd(&a)
        }
        _ => usage(),
    }
}

fn run_cmd(a: &runner::RunArgs) -> i32 {
    // determinism first: a sample of runs executed in two processes with 1 and N workers
    let sc_runs = match a.tier.as_str() {
        "thorough" => 4_000u64.min(runner::plan_runs(a.prop, "selfcheck")),
        _ => 500u64.min(runner::plan_runs(a.prop, "selfcheck")),
    };
    // the main pass first: it has the watchdogs, so a run that never returns is found there; the determinism
    // self-check (same code, no watchdog of its own beyond a deadline) is skipped when the main pass saw a hang
    let sum = runner::run_parent(a);
    let hung = sum.violations.iter().any(|(v, _)| v.rule == "hang");
    let (sc_compared, sc_mismatch, sc_errors) = if hung { (0, 0, vec![]) } else { runner::selfcheck(a, sc_runs) };
    let mut errors = sum.errors.clone();
    errors.extend(sc_errors);
    if sc_mismatch > 0 {
        errors.push(format!("determinism selfcheck: {} of {} runs gave different event logs in two processes", sc_mismatch, sc_compared));
    }
    // probes that must not be stuck at zero
    let required = required_probes(a.prop);
    for p in &required {
        // (a batch that was cut short by a confirmed hang has not visited everything, and does not claim to)
        if !hung && sum.stats.probes.get(*p).copied().unwrap_or(0) == 0 {
            errors.push(format!("probe '{}' stayed at zero: the run did not reach what it claims to cover", p));
        }
    }
    if a.prop == Prop::C05 && sum.stats.skipped_seeds * 2 > sum.stats.skipped_seeds + sum.stats.used_seeds && sum.stats.skipped_seeds > 0 {
        errors.push(format!(
            "C05 not decidable on this tree: {} of {} well-formed seed messages are rejected (a precondition, judged by other properties)",
            sum.stats.skipped_seeds,
            sum.stats.skipped_seeds + sum.stats.used_seeds
        ));
    }
    let viol_json: Vec<J> = sum
        .violations
        .iter()
        .map(|(v, p)| {
            let last = v.steps.last().cloned().unwrap_or(J::Null);
            obj(vec![
                ("property", s(v.property.clone())),
                ("rule", s(v.rule.clone())),
                ("detail", s(v.detail.clone())),
                ("run", J::Int(v.run as i64)),
                ("replay", s(p.display().to_string())),
                ("fingerprint", s(fingerprint(&v.rule, &v.detail, &last))),
                ("failing_step", last),
            ])
        })
        .collect();
    let summary = obj(vec![
        ("property", s(a.prop.id())),
        ("tier", s(a.tier.clone())),
        ("seed", J::Int(a.seed as i64)),
        ("features", s(core::feature_set())),
        ("wall_s", J::Num(sum.wall_s)),
        ("planned_runs", J::Int(a.runs_override.unwrap_or_else(|| runner::plan_runs(a.prop, &a.tier)) as i64)),
        ("aborted_workers", J::Int(sum.aborts as i64)),
        ("selfcheck", obj(vec![("runs_compared", J::Int(sc_compared as i64)), ("mismatches", J::Int(sc_mismatch as i64))])),
        ("stats", {
            let mut st = sum.stats.to_json();
            // the sets are only needed between worker and parent; the summary keeps their sizes
            st.set("distinct", J::Int(sum.stats.distinct.len() as i64));
            st.set("logs", J::Int(sum.stats.logs.len() as i64));
            st
        }),
        ("violations", J::Arr(viol_json)),
        ("errors", J::Arr(errors.iter().map(|e| s(e.clone())).collect())),
    ]);
    if let Err(e) = runner::write_file(&a.out, &summary.pretty()) {
        eprintln!("cannot write summary {}: {}", a.out.display(), e);
        return 2;
    }
    for (v, p) in &sum.violations {
        println!("FOUND property={} rule={} replay={} detail={}", v.property, v.rule, p.display(), v.detail);
    }
    for e in &errors {
        println!("HARNESS-ERROR {}", e);
    }
    if !sum.violations.is_empty() {
        1
    } else if !errors.is_empty() {
        2
    } else {
        0
    }
}

/// Identity of a finding for the known-findings file: the call site for crashes, otherwise the
/// rule together with the kind of exchange and the member it was applied to - specific enough
/// that a different violation of the same property is still reported.
fn fingerprint(rule: &str, detail: &str, last_step: &J) -> String {
    let op = last_step.get("op").and_then(|x| x.str()).unwrap_or("?");
    if rule == "panic" {
        // "... at <path>:<line> [..." -> crate-relative location
        if let Some(i) = detail.find(" at /") {
            let loc: String = detail[i + 4..].chars().take_while(|c| !c.is_whitespace()).collect();
            let loc = loc.rsplit("/registry/src/").next().unwrap_or(&loc).to_string();
            let loc = match loc.find('/') {
                Some(k) if loc.contains("registry") || loc.split('/').next().map(|h| h.contains('-')).unwrap_or(false) => loc[k + 1..].to_string(),
                _ => loc,
            };
            return format!("panic@{}:{}", op, loc);
        }
    }
    let class = last_step.get("class").and_then(|x| x.str()).unwrap_or("");
    let site = last_step.get("site").and_then(|x| x.str()).unwrap_or("");
    let kind = last_step.get("kind").map(|k| k.compact()).or_else(|| last_step.get("response").and_then(|r| r.get("kind")).map(|k| k.compact())).unwrap_or_default();
    let site: String = site.chars().filter(|c| !c.is_ascii_digit()).collect();
    format!("{}|{}|{}|{}|{}", rule, op, class, site, kind).replace(' ', "_")
}

fn required_probes(p: Prop) -> Vec<&'static str> {
    match p {
        Prop::C04 => c04::REQUIRED_PROBES.to_vec(),
        Prop::C05 => vec!["truncation_rejected_0x12", "status_0x14_observed", "status_0x01_observed", "over_capacity_reached_String256", "conditional_fault_rejected"],
        Prop::C07 => c07::REQUIRED_PROBES.to_vec(),
        Prop::C09 => c09::REQUIRED_PROBES.to_vec(),
        Prop::C10 => c10::REQUIRED_PROBES.to_vec(),
        Prop::C17 => c17::REQUIRED_PROBES.to_vec(),
        Prop::C19 => c19::REQUIRED_PROBES.to_vec(),
    }
}

fn stack_probe_levels(kind: u8) -> usize {
    // 7609-byte limit minus the surrounding MakeCredential message (about 120 bytes); maps cost two bytes per level
    let budget = 7609 - 130;
    if kind == 1 { budget / 2 } else { budget }
}

fn stack_probe_message(kind: u8) -> Vec<u8> {
    use cbor::{t, V};
    let mut rng = prng::Rng::new(1, 1, 99);
    let sc = schema::make_credential();
    let root = schema::gen_map(&sc, &mut rng, schema::GenMode::Min);
    // options map with one unknown member holding the nested value
    let nested = faults::nested(kind, stack_probe_levels(kind), V::U(0));
    let root = match root {
        V::M(mut m) => {
            m.push((cbor::int(7), V::M(vec![(t("zz"), nested)])));
            V::M(m)
        }
        o => o,
    };
    let mut msg = vec![0x01];
    cbor::enc_into(&mut msg, &root);
    msg
}


/// In the build that enables the crate's `log-all` feature, the simulated deployment has a logger
/// installed at level Trace (as any firmware that enables logging does): every log statement in the
/// code under test evaluates its arguments and is formatted. The sink only counts and hashes what it
/// is given; it never reads a clock or the PRNG.
#[cfg(feature = "log-all")]
pub static LOG_RECORDS: std::sync::atomic::AtomicU64 = std::sync::atomic::AtomicU64::new(0);
#[cfg(feature = "log-all")]
pub static LOG_HASH: std::sync::atomic::AtomicU64 = std::sync::atomic::AtomicU64::new(0);

#[cfg(feature = "log-all")]
fn install_logger() {
    use std::fmt::Write;
    use std::sync::atomic::Ordering;
    struct Sink;
    struct H(prng::Fnv);
    impl Write for H {
        fn write_str(&mut self, s: &str) -> std::fmt::Result {
            self.0.write(s.as_bytes());
            Ok(())
        }
    }
    impl log::Log for Sink {
        fn enabled(&self, _: &log::Metadata) -> bool {
            true
        }
        fn log(&self, r: &log::Record) {
            let mut h = H(prng::Fnv::new());
            let _ = write!(h, "{}", r.args());
            LOG_RECORDS.fetch_add(1, Ordering::Relaxed);
            LOG_HASH.fetch_xor(h.0 .0, Ordering::Relaxed);
        }
        fn flush(&self) {}
    }
    static SINK: Sink = Sink;
    let _ = log::set_logger(&SINK);
    log::set_max_level(log::LevelFilter::Trace);
}

#[cfg(not(feature = "log-all"))]
fn install_logger() {}
