//! Crash monitor for calls into the real code: unwinding panics are caught here,
//! aborts are caught by the supervisor (worker process dies on a signal).

use std::cell::RefCell;
use std::panic::{self, AssertUnwindSafe};
use std::sync::Once;

thread_local! {
    static LAST_PANIC: RefCell<Option<String>> = const { RefCell::new(None) };
}

static HOOK: Once = Once::new();

pub fn install_hook() {
    HOOK.call_once(|| {
        panic::set_hook(Box::new(|info| {
            let loc = info
                .location()
                .map(|l| format!("{}:{}", l.file(), l.line()))
                .unwrap_or_else(|| "?".into());
            let msg = if let Some(s) = info.payload().downcast_ref::<&str>() {
                s.to_string()
            } else if let Some(s) = info.payload().downcast_ref::<String>() {
                s.clone()
            } else {
                "non-string panic payload".into()
            };
            LAST_PANIC.with(|p| *p.borrow_mut() = Some(format!("{} at {}", msg, loc)));
        }));
    });
}

/// Run real code; an unwinding panic becomes `Err(description)`.
pub fn guard<T>(f: impl FnOnce() -> T) -> Result<T, String> {
    install_hook();
    match panic::catch_unwind(AssertUnwindSafe(f)) {
        Ok(v) => Ok(v),
        Err(_) => Err(LAST_PANIC
            .with(|p| p.borrow_mut().take())
            .unwrap_or_else(|| "panic (no message)".into())),
    }
}
