//! Crash monitor for calls into the real code: unwinding panics are caught here,
//! aborts are caught by the supervisor (worker process dies on a signal).

use std::cell::RefCell;
use std::panic::{self, AssertUnwindSafe};
use std::sync::Once;

thread_local! {
    static LAST_PANIC: RefCell<Option<String>> = const { RefCell::new(None) };
}

static HOOK: Once = Once::new();

pub fn install_hook() {
    HOOK.call_once(|| {
        panic::set_hook(Box::new(|info| {
            let loc = info
                .location()
                .map(|l| format!("{}:{}", l.file(), l.line()))
                .unwrap_or_else(|| "?".into());
            let msg = if let Some(s) = info.payload().downcast_ref::<&str>() {
                s.to_string()
            } else if let Some(s) = info.payload().downcast_ref::<String>() {
                s.clone()
            } else {
                "non-string panic payload".into()
            };
            LAST_PANIC.with(|p| *p.borrow_mut() = Some(format!("{} at {}", msg, loc)));
        }));
    });
}

/// Run real code; an unwinding panic becomes `Err(description)`.
pub fn guard<T>(f: impl FnOnce() -> T) -> Result<T, String> {
    install_hook();
    match panic::catch_unwind(AssertUnwindSafe(f)) {
        Ok(v) => Ok(v),
        Err(_) => Err(LAST_PANIC
            .with(|p| p.borrow_mut().take())
            .unwrap_or_else(|| "panic (no message)".into())),
    }
}


/// A copy of `data` at a chosen address alignment (`want` = address modulo 8). Callers hand the real code
/// slices that live anywhere in memory - inside packets, after tag bytes - so the address of every borrowed
/// input is part of the schedule; it is set explicitly so that it does not depend on the allocator.
pub struct Placed {
    buf: Vec<u8>,
    off: usize,
    len: usize,
}

impl Placed {
    pub fn new(data: &[u8], want: usize) -> Placed {
        let mut buf = vec![0xEEu8; data.len() + 16];
        let base = buf.as_ptr() as usize;
        let off = (8 + (want % 8) - base % 8) % 8;
        buf[off..off + data.len()].copy_from_slice(data);
        Placed { buf, off, len: data.len() }
    }
    pub fn get(&self) -> &[u8] {
        &self.buf[self.off..self.off + self.len]
    }
}
