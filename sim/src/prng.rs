//! The only source of randomness in the simulator.
//!
//! `VERIF_SEED` -> SplitMix64 -> one xoshiro256** stream per (run index, purpose).
//! Own code (about 40 lines) so that replay never depends on a crate version.

#[derive(Clone, Debug)]
pub struct Rng {
    s: [u64; 4],
}

fn splitmix(x: &mut u64) -> u64 {
    *x = x.wrapping_add(0x9E37_79B9_7F4A_7C15);
    let mut z = *x;
    z = (z ^ (z >> 30)).wrapping_mul(0xBF58_476D_1CE4_E5B9);
    z = (z ^ (z >> 27)).wrapping_mul(0x94D0_49BB_1331_11EB);
    z ^ (z >> 31)
}

impl Rng {
    /// Stream for (seed, run, purpose). Purposes are small fixed integers.
    pub fn new(seed: u64, run: u64, purpose: u64) -> Rng {
        let mut x = seed
            ^ run.wrapping_mul(0xA24B_AED4_963E_E407)
            ^ purpose.wrapping_mul(0x9FB2_1C65_1E98_DF25);
        let mut s = [0u64; 4];
        for v in s.iter_mut() {
            *v = splitmix(&mut x);
        }
        if s == [0; 4] {
            s[0] = 1;
        }
        Rng { s }
    }

    pub fn next(&mut self) -> u64 {
        let r = self.s[1].wrapping_mul(5).rotate_left(7).wrapping_mul(9);
        let t = self.s[1] << 17;
        self.s[2] ^= self.s[0];
        self.s[3] ^= self.s[1];
        self.s[1] ^= self.s[2];
        self.s[0] ^= self.s[3];
        self.s[2] ^= t;
        self.s[3] = self.s[3].rotate_left(45);
        r
    }

    /// Uniform in 0..n (n > 0). Bias is irrelevant here; determinism is what matters.
    pub fn below(&mut self, n: u64) -> u64 {
        debug_assert!(n > 0);
        ((self.next() as u128 * n as u128) >> 64) as u64
    }

    pub fn range(&mut self, lo: u64, hi_incl: u64) -> u64 {
        lo + self.below(hi_incl - lo + 1)
    }

    pub fn usize_below(&mut self, n: usize) -> usize {
        self.below(n as u64) as usize
    }

    /// true with probability num/den
    pub fn chance(&mut self, num: u64, den: u64) -> bool {
        self.below(den) < num
    }

    pub fn coin(&mut self) -> bool {
        self.next() & 1 == 1
    }

    pub fn pick<'a, T>(&mut self, xs: &'a [T]) -> &'a T {
        &xs[self.usize_below(xs.len())]
    }

    /// Content for byte-string members: mostly random, sometimes a pattern that code might treat
    /// specially (all zero, all 0xff, a single repeated byte, ASCII, leading/trailing zero or 0x80 bytes).
    pub fn content(&mut self, n: usize) -> Vec<u8> {
        let mut b = self.bytes(n);
        if n == 0 {
            return b;
        }
        match self.below(12) {
            0 => b.iter_mut().for_each(|x| *x = 0),
            1 => b.iter_mut().for_each(|x| *x = 0xff),
            2 => {
                let v = self.next() as u8;
                b.iter_mut().for_each(|x| *x = v)
            }
            3 => b.iter_mut().for_each(|x| *x = b'a' + (*x % 26)),
            4 => b[0] = 0,
            5 => b[n - 1] = 0,
            6 => b[0] = 0x80,
            7 => {
                b[0] = 0x30;
                if n > 1 {
                    b[1] = 0x82;
                }
            }
            _ => {}
        }
        b
    }

    pub fn bytes(&mut self, n: usize) -> Vec<u8> {
        let mut v = Vec::with_capacity(n);
        while v.len() < n {
            let w = self.next().to_le_bytes();
            let take = (n - v.len()).min(8);
            v.extend_from_slice(&w[..take]);
        }
        v
    }
}

/// FNV-1a 64, used for event-log hashes (no std hasher: its keys are randomised).
#[derive(Clone, Copy)]
pub struct Fnv(pub u64);

impl Fnv {
    pub fn new() -> Fnv {
        Fnv(0xcbf2_9ce4_8422_2325)
    }
    pub fn write(&mut self, b: &[u8]) {
        for &x in b {
            self.0 ^= x as u64;
            self.0 = self.0.wrapping_mul(0x0000_0100_0000_01B3);
        }
    }
    pub fn write_u64(&mut self, v: u64) {
        self.write(&v.to_le_bytes());
    }
    pub fn write_str(&mut self, s: &str) {
        self.write(s.as_bytes());
        self.write(&[0xff]);
    }
}

pub fn fnv(b: &[u8]) -> u64 {
    let mut h = Fnv::new();
    h.write(b);
    h.0
}
