//! C19 — requests generated from arbitrary entropy are memory-safe, valid values.
//!
//! Seam: `Arbitrary::arbitrary(&mut Unstructured)`, a cursor over an entropy slice whose
//! reads fail at EOF. Faults: the entropy runs out at any byte, or is ill-formed UTF-8.

use crate::core::Stats;
use crate::json::{self, obj, s, J};
use crate::prng::Rng;
use crate::trace::{Device, Finding, Log, Step};

pub const REQUIRED_PROBES: [&str; 8] = [
    "generated_ok",
    "not_enough_data",
    "eof_between_length_and_data",
    "ill_formed_utf8_reached_a_string",
    "ctap1_generated",
    "ctap2_generated",
    "combined_generated",
    "take_rest_entry_point",
];

#[derive(Clone, Debug, PartialEq)]
pub struct GenSpec {
    /// 0 ctap1::Request, 1 ctap2::Request, 2 authenticator::Request
    pub generator: u8,
    pub take_rest: bool,
    pub entropy: Vec<u8>,
    pub desc: String,
}

impl GenSpec {
    pub fn to_json(&self) -> J {
        obj(vec![
            ("op", s("generate")),
            ("generator", json::i(self.generator)),
            ("take_rest", J::Bool(self.take_rest)),
            ("desc", s(self.desc.clone())),
            ("len", json::i(self.entropy.len())),
            ("entropy", s(json::hex(&self.entropy))),
        ])
    }
    pub fn from_json(j: &J) -> Option<GenSpec> {
        Some(GenSpec {
            generator: j.get("generator")?.int()? as u8,
            take_rest: j.get("take_rest")?.bool()?,
            entropy: json::unhex(j.get("entropy")?.str()?)?,
            desc: j.get("desc")?.str()?.to_string(),
        })
    }
    pub fn shrinks(&self) -> Vec<GenSpec> {
        let mut out: Vec<GenSpec> = crate::trace::shrink_bytes(&self.entropy).into_iter().map(|e| GenSpec { entropy: e, ..self.clone() }).collect();
        // also try zeroing the very first byte (shrink_bytes leaves index 0 alone)
        if self.entropy.first().map(|b| *b != 0).unwrap_or(false) {
            let mut e = self.entropy.clone();
            e[0] = 0;
            out.push(GenSpec { entropy: e, ..self.clone() });
        }
        out
    }
}

#[cfg(not(feature = "arbitrary"))]
pub fn exec(dev: &mut Device, _x: &GenSpec, log: &mut Log) -> Option<Finding> {
    log.event("generate: feature arbitrary not built");
    dev.last_outcome = "skip-no-arbitrary".into();
    None
}

#[cfg(feature = "arbitrary")]
mod imp {
    use super::*;
    use crate::guard::guard;
    use arbitrary::{Arbitrary, Unstructured};
    use ctap_types::{authenticator, ctap1, ctap2, webauthn as wa};

    struct Audit<'e> {
        problems: Vec<String>,
        strings: u32,
        nonempty_strings: u32,
        /// the entropy the request was generated from: every borrowed field must point into it
        base: &'e [u8],
    }

    impl<'e> Audit<'e> {
        /// A request generated from `Unstructured<'a>` may only borrow from the entropy slice.
        fn borrowed(&mut self, name: &str, b: &[u8]) {
            if b.is_empty() {
                return;
            }
            let lo = self.base.as_ptr() as usize;
            let hi = lo + self.base.len();
            let p = b.as_ptr() as usize;
            if p < lo || p + b.len() > hi {
                self.problems.push(format!("{} ({} bytes) does not borrow from the input: dangling or foreign memory", name, b.len()));
            }
        }
        fn ctap1(&mut self, r: &ctap1::Request) {
            match r {
                ctap1::Request::Register(q) => {
                    self.borrowed("register.challenge", q.challenge);
                    self.borrowed("register.app_id", q.app_id);
                }
                ctap1::Request::Authenticate(q) => {
                    self.borrowed("authenticate.challenge", q.challenge);
                    self.borrowed("authenticate.app_id", q.app_id);
                    self.borrowed("authenticate.key_handle", q.key_handle);
                }
                ctap1::Request::Version => {}
            }
        }
        fn text(&mut self, name: &str, b: &[u8], cap: Option<usize>) {
            self.strings += 1;
            if !b.is_empty() {
                self.nonempty_strings += 1;
            }
            if core::str::from_utf8(b).is_err() {
                self.problems.push(format!("{} is not well-formed UTF-8: {}", name, json::hex(&b[..b.len().min(32)])));
            }
            if let Some(c) = cap {
                if b.len() > c {
                    self.problems.push(format!("{} has {} bytes, capacity {}", name, b.len(), c));
                }
            }
        }
        fn bounded(&mut self, name: &str, len: usize, cap: usize) {
            if len > cap {
                self.problems.push(format!("{} has length {}, capacity {}", name, len, cap));
            }
        }
        fn user(&mut self, u: &wa::PublicKeyCredentialUserEntity) {
            self.bounded("user.id", u.id.len(), 64);
            if let Some(x) = &u.icon {
                self.text("user.icon", x.as_bytes(), Some(128));
            }
            if let Some(x) = &u.name {
                self.text("user.name", x.as_bytes(), Some(64));
            }
            if let Some(x) = &u.display_name {
                self.text("user.displayName", x.as_bytes(), Some(64));
            }
        }
        fn descriptor(&mut self, d: &wa::PublicKeyCredentialDescriptorRef) {
            self.text("descriptor.type", d.key_type.as_bytes(), None);
            self.borrowed("descriptor.type", d.key_type.as_bytes());
            self.borrowed("descriptor.id", d.id);
        }
        fn key(&mut self, k: &cosey::EcdhEsHkdf256PublicKey) {
            self.bounded("keyAgreement.x", k.x.len(), 32);
            self.bounded("keyAgreement.y", k.y.len(), 32);
        }
        fn formats(&mut self, f: &ctap2::AttestationFormatsPreference) {
            self.bounded("attestationFormatsPreference.known", f.known_formats().len(), 2);
        }
        fn ctap2(&mut self, r: &ctap2::Request) {
            match r {
                ctap2::Request::MakeCredential(m) => {
                    self.borrowed("clientDataHash", m.client_data_hash);
                    if let Some(p) = m.pin_auth {
                        self.borrowed("pinAuth", p);
                    }
                    self.text("rp.id", m.rp.id.as_bytes(), Some(256));
                    if let Some(n) = &m.rp.name {
                        self.text("rp.name", n.as_bytes(), Some(64));
                    }
                    self.user(&m.user);
                    self.bounded("pubKeyCredParams", m.pub_key_cred_params.0.len(), 2);
                    for p in &m.pub_key_cred_params.0 {
                        if !wa::KNOWN_ALGS.contains(&p.alg) {
                            self.problems.push(format!("filtered parameter list holds unknown algorithm {}", p.alg));
                        }
                    }
                    if let Some(l) = &m.exclude_list {
                        self.bounded("excludeList", l.len(), 16);
                        for d in l {
                            self.descriptor(d);
                        }
                    }
                    if let Some(f) = &m.attestation_formats_preference {
                        self.formats(f);
                    }
                }
                ctap2::Request::GetAssertion(g) => {
                    self.borrowed("rpId", g.rp_id.as_bytes());
                    self.borrowed("clientDataHash", g.client_data_hash);
                    if let Some(p) = g.pin_auth {
                        self.borrowed("pinAuth", p);
                    }
                    self.text("rpId", g.rp_id.as_bytes(), None);
                    if let Some(l) = &g.allow_list {
                        self.bounded("allowList", l.len(), 10);
                        for d in l {
                            self.descriptor(d);
                        }
                    }
                    if let Some(e) = &g.extensions {
                        if let Some(h) = &e.hmac_secret {
                            self.key(&h.key_agreement);
                            self.bounded("saltEnc", h.salt_enc.len(), 80);
                            self.bounded("saltAuth", h.salt_auth.len(), 32);
                        }
                    }
                    if let Some(f) = &g.attestation_formats_preference {
                        self.formats(f);
                    }
                }
                ctap2::Request::ClientPin(c) => {
                    if let Some(k) = &c.key_agreement {
                        self.key(k);
                    }
                    if let Some(r) = c.rp_id {
                        self.text("clientPin.rpId", r.as_bytes(), None);
                        self.borrowed("clientPin.rpId", r.as_bytes());
                    }
                    for (n, f) in [("pinAuth", c.pin_auth), ("newPinEnc", c.new_pin_enc), ("pinHashEnc", c.pin_hash_enc)] {
                        if let Some(b) = f {
                            self.borrowed(n, b);
                        }
                    }
                }
                ctap2::Request::LargeBlobs(l) => {
                    for (n, f) in [("set", l.set), ("pinUvAuthParam", l.pin_uv_auth_param)] {
                        if let Some(b) = f {
                            self.borrowed(n, b);
                        }
                    }
                }
                ctap2::Request::CredentialManagement(c) => {
                    if let Some(b) = c.pin_auth {
                        self.borrowed("pinAuth", b);
                    }
                    if let Some(p) = &c.sub_command_params {
                        // (written so that it also builds if the member becomes an owned array: then nothing is borrowed)
                        if let Some(h) = &p.rp_id_hash {
                            MaybeBorrowed::audit(h, "rpIDHash", self);
                        }
                        if let Some(d) = &p.credential_id {
                            self.descriptor(d);
                        }
                        if let Some(u) = &p.user {
                            self.user(u);
                        }
                    }
                }
                _ => {}
            }
        }
    }

    fn finding(rule: &str, detail: String) -> Option<Finding> {
        Some(Finding { rule: rule.into(), detail })
    }

    trait MaybeBorrowed {
        fn audit(&self, name: &str, a: &mut Audit);
    }
    impl<const N: usize> MaybeBorrowed for &serde_bytes::ByteArray<N> {
        fn audit(&self, name: &str, a: &mut Audit) {
            a.borrowed(name, &self[..]);
        }
    }
    impl<const N: usize> MaybeBorrowed for serde_bytes::ByteArray<N> {
        fn audit(&self, _: &str, _: &mut Audit) {}
    }

    /// Generation is a function of the entropy: a second generation must compare equal.
    fn regen_equal<'a, T: Arbitrary<'a> + PartialEq>(entropy: &'a [u8], take_rest: bool, first: &T) -> bool {
        let mut u = Unstructured::new(entropy);
        let again = if take_rest { T::arbitrary_take_rest(u) } else { T::arbitrary(&mut u) };
        matches!(again, Ok(ref r2) if r2 == first)
    }

    /// `Clone::clone_from` is part of "can be cloned": other values of the same type (generated from shifted
    /// views of the same entropy) are overwritten in place with `field`, and a clone of `field` with them.
    fn cf<'a, F: Arbitrary<'a> + Clone + PartialEq>(base: &'a [u8], field: &F) -> bool {
        for k in [1usize, 3, 8, 21] {
            if k > base.len() {
                break;
            }
            if let Ok(o) = F::arbitrary(&mut Unstructured::new(&base[k..])) {
                // comparing two DIFFERENT generated values must not fault either, and is symmetric
                if (o == *field) != (*field == o) {
                    return false;
                }
                let mut d = o.clone();
                d.clone_from(field);
                if d != *field {
                    return false;
                }
                let mut e = field.clone();
                e.clone_from(&o);
                if e != o {
                    return false;
                }
            }
        }
        // the same entropy cut short gives a value that shares a prefix with `field` but has other lengths
        // (the generators read lengths from the END of the input): compare those both ways as well
        for cut in [1usize, 2, 5, 8, 16, 33] {
            if cut >= base.len() {
                break;
            }
            if let Ok(o) = F::arbitrary(&mut Unstructured::new(&base[..base.len() - cut])) {
                if (o == *field) != (*field == o) {
                    return false;
                }
            }
            if let Ok(o) = F::arbitrary_take_rest(Unstructured::new(&base[..base.len() - cut])) {
                if (o == *field) != (*field == o) {
                    return false;
                }
            }
        }
        true
    }

    /// the same for member types without a generator of their own: the other values are given
    fn cf_with<F: Clone + PartialEq>(field: &F, others: &[F]) -> bool {
        others.iter().all(|o| {
            let mut d = o.clone();
            d.clone_from(field);
            let mut e = field.clone();
            e.clone_from(o);
            d == *field && e == *o
        })
    }

    fn clone_from_ok<'a>(base: &'a [u8], r: &ctap2::Request<'a>) -> bool {
        cf(base, r)
            && match r {
                ctap2::Request::MakeCredential(m) => {
                    cf(base, &m.rp) && cf(base, &m.user) && cf(base, &m.pub_key_cred_params) && cf_with(&m.exclude_list, &[None, Some(Default::default())]) && cf(base, &m.extensions) && cf(base, &m.options) && cf(base, &m.attestation_formats_preference)
                }
                ctap2::Request::GetAssertion(g) => cf_with(&g.allow_list, &[None, Some(Default::default())]) && cf(base, &g.extensions) && cf(base, &g.options) && cf(base, &g.attestation_formats_preference),
                ctap2::Request::ClientPin(c) => cf_with(&c.key_agreement, &[None]),
                ctap2::Request::CredentialManagement(c) => cf(base, &c.sub_command_params),
                _ => true,
            }
    }

    enum Out {
        NotEnough,
        OtherError(String),
        Ok { variant: String, problems: Vec<String>, nonempty_strings: u32, clone_eq: bool, dbg_len: usize, dispatch: Result<String, Finding> },
    }

    fn run_generator(dev: &mut Device, x: &GenSpec) -> Out {
        // the entropy string sits at an address alignment derived from its content (fuzzers hand out sub-slices)
        let placed = crate::guard::Placed::new(&x.entropy, crate::prng::fnv(&x.entropy) as usize);
        let entropy: &[u8] = placed.get();
        let mut u = Unstructured::new(entropy);
        macro_rules! gen {
            ($t:ty) => {
                if x.take_rest { <$t>::arbitrary_take_rest(u) } else { <$t>::arbitrary(&mut u) }
            };
        }
        let mut audit = Audit { problems: Vec::new(), strings: 0, nonempty_strings: 0, base: entropy };
        match x.generator {
            0 => match gen!(ctap1::Request) {
                Ok(r) => {
                    audit.ctap1(&r);
                    let dbg = format!("{:?}", r);
                    let c = r.clone();
                    Out::Ok { variant: dbg.split(['(', ' ']).next().unwrap_or("").to_string(), problems: audit.problems, nonempty_strings: 0, clone_eq: c == r && regen_equal(entropy, x.take_rest, &r) && cf(entropy, &r), dbg_len: dbg.len(), dispatch: crate::c10::dispatch_generated1(&mut dev.mocks, &r) }
                }
                Err(arbitrary::Error::NotEnoughData) => Out::NotEnough,
                Err(e) => Out::OtherError(format!("{:?}", e)),
            },
            1 => match gen!(ctap2::Request) {
                Ok(r) => {
                    audit.ctap2(&r);
                    let dbg = format!("{:?}", r);
                    let c = r.clone();
                    Out::Ok { variant: crate::real::variant_name(&r).to_string(), problems: audit.problems, nonempty_strings: audit.nonempty_strings, clone_eq: c == r && regen_equal(entropy, x.take_rest, &r) && clone_from_ok(entropy, &r), dbg_len: dbg.len(), dispatch: crate::c10::dispatch_generated2(&mut dev.mocks, &r) }
                }
                Err(arbitrary::Error::NotEnoughData) => Out::NotEnough,
                Err(e) => Out::OtherError(format!("{:?}", e)),
            },
            _ => match gen!(authenticator::Request) {
                Ok(r) => {
                    let dbg = format!("{:?}", r);
                    let c = r.clone();
                    let clone_eq = c == r
                        && regen_equal(entropy, x.take_rest, &r)
                        && cf(entropy, &r)
                        && match &r {
                            authenticator::Request::Ctap2(q) => clone_from_ok(entropy, q),
                            _ => true,
                        };
                    match &r {
                        authenticator::Request::Ctap1(q) => {
                            audit.ctap1(q);
                            Out::Ok { variant: "Ctap1".into(), problems: audit.problems, nonempty_strings: 0, clone_eq, dbg_len: dbg.len(), dispatch: crate::c10::dispatch_generated1(&mut dev.mocks, q) }
                        }
                        authenticator::Request::Ctap2(q) => {
                            audit.ctap2(q);
                            Out::Ok { variant: format!("Ctap2/{}", crate::real::variant_name(q)), problems: audit.problems, nonempty_strings: audit.nonempty_strings, clone_eq, dbg_len: dbg.len(), dispatch: crate::c10::dispatch_generated2(&mut dev.mocks, q) }
                        }
                    }
                }
                Err(arbitrary::Error::NotEnoughData) => Out::NotEnough,
                Err(e) => Out::OtherError(format!("{:?}", e)),
            },
        }
    }

    pub fn exec(dev: &mut Device, x: &GenSpec, log: &mut Log) -> Option<Finding> {
        let r = guard(|| run_generator(dev, x));
        match r {
            Err(p) => {
                log.event(&format!("generate g={} rest={} len={} -> PANIC", x.generator, x.take_rest, x.entropy.len()));
                finding("panic", format!("generator {} panicked on {} bytes of entropy: {} [{}]", x.generator, x.entropy.len(), p, x.desc))
            }
            Ok(Out::NotEnough) => {
                log.event(&format!("generate g={} rest={} len={} -> NotEnoughData", x.generator, x.take_rest, x.entropy.len()));
                dev.last_outcome = "not_enough".into();
                None
            }
            Ok(Out::OtherError(e)) => {
                log.event(&format!("generate g={} rest={} len={} -> Err({})", x.generator, x.take_rest, x.entropy.len(), e));
                finding("unexpected_error", format!("generator must either report that the bytes ran out or succeed, got {} [{}]", e, x.desc))
            }
            Ok(Out::Ok { variant, problems, nonempty_strings, clone_eq, dbg_len, dispatch }) => {
                log.event(&format!("generate g={} rest={} len={} -> Ok({}) dbg={} strings={} dispatch={:?}", x.generator, x.take_rest, x.entropy.len(), variant, dbg_len, nonempty_strings, dispatch.as_ref().map(|o| o.len()).map_err(|f| f.rule.clone())));
                dev.last_outcome = format!("ok:{}:{}", variant, nonempty_strings);
                if let Some(p) = problems.first() {
                    let rule = if p.contains("UTF-8") { "invalid_utf8" } else if p.contains("does not borrow") { "dangling_borrow" } else { "over_capacity" };
                    return finding(rule, format!("generated {} request is not internally valid: {} [{}]", variant, p, x.desc));
                }
                if !clone_eq {
                    return finding("clone_differs", format!("generated {} request does not compare equal to its clone, to a second generation from the same bytes, or after clone_from [{}]", variant, x.desc));
                }
                if let Err(f) = dispatch {
                    return finding(&format!("dispatch_{}", f.rule), format!("generated {} request could not be dispatched without fault: {} [{}]", variant, f.detail, x.desc));
                }
                None
            }
        }
    }
}

#[cfg(feature = "arbitrary")]
pub use imp::exec;

pub fn plan(tier: &str) -> u64 {
    match tier {
        "thorough" => 60_000,
        "selfcheck" => 20_000,
        _ => 500,
    }
}

const LENS: [usize; 12] = [0, 1, 2, 33, 64, 65, 130, 255, 256, 700, 1024, 4096];

fn utf8_mix(rng: &mut Rng, n: usize) -> Vec<u8> {
    // complete and deliberately cut 2/3/4-byte sequences, interleaved with small length-like bytes
    let seqs: [&[u8]; 9] = [b"a", "é".as_bytes(), "€".as_bytes(), "😀".as_bytes(), &[0xc3], &[0xe2, 0x82], &[0xf0, 0x9f, 0x98], &[0x80], &[0xff]];
    let mut out = Vec::with_capacity(n + 4);
    while out.len() < n {
        match rng.below(10) {
            0 => out.extend_from_slice(&[rng.below(80) as u8, 0, 0, 0, 0, 0, 0, 0]), // a small usize
            1 => out.push(rng.below(4) as u8),
            _ => {
                let k = if rng.chance(3, 4) { rng.usize_below(4) } else { 4 + rng.usize_below(5) };
                out.extend_from_slice(seqs[k]);
            }
        }
    }
    out.truncate(n);
    out
}

/// One generated text field as the crate's string helper consumes it: an 8-byte little-endian
/// length n, then content arranged so that the n-byte window ends at a chosen place relative to a
/// multi-byte character: complete, cut after 1..w-1 bytes, followed by the right continuation
/// bytes, by a non-continuation byte, by another lead byte, or by nothing.
fn text_field(rng: &mut Rng, cap: usize, out: &mut Vec<u8>) -> String {
    let chars: [&[u8]; 3] = ["é".as_bytes(), "€".as_bytes(), "😀".as_bytes()];
    let ch = chars[rng.usize_below(3)];
    let w = ch.len();
    let cut = match rng.below(4) {
        0 => 0,                         // window ends on a boundary
        _ => 1 + rng.usize_below(w - 1), // window ends inside the character
    };
    let lead = match rng.below(5) {
        0 => 0,
        1 => cap.saturating_sub(cut),          // window ends exactly at capacity
        2 => cap.saturating_sub(cut + 1),
        3 => cap.saturating_sub(w).saturating_sub(rng.usize_below(3)),
        _ => rng.usize_below(cap.min(40) + 1),
    };
    let n: u64 = match rng.below(8) {
        0 => u64::MAX,                        // clamped to the capacity by the generator
        1 => (cap + 1 + rng.usize_below(300)) as u64,
        _ => (lead + cut) as u64,
    };
    out.extend_from_slice(&n.to_le_bytes());
    // the part before the cut: ASCII, or 1-4 byte characters, occasionally with an ill-formed byte (error_len = Some)
    if rng.coin() {
        let ascii = b"abcdefghijklmnopqrstuvwxyz";
        for i in 0..lead {
            out.push(if rng.chance(1, 200) { 0xff } else { ascii[i % 26] });
        }
    } else {
        out.extend_from_slice(&crate::schema::utf8_text(rng, lead));
    }
    out.extend_from_slice(&ch[..cut]);
    let follower = rng.below(5);
    match follower {
        0 => out.extend_from_slice(&ch[cut..]), // the rest of the character
        1 => out.push(b'A'),                    // not a continuation byte
        2 => out.push(0xff),
        3 => out.extend_from_slice("ß".as_bytes()), // another lead byte
        _ => {}                                 // nothing: the next field follows directly
    }
    format!("text(cap {} n {} lead {} cut {}/{} follower {})", cap, n, lead, cut, w, follower)
}

fn bytes_field(rng: &mut Rng, cap: usize, out: &mut Vec<u8>) {
    let n: u64 = match rng.below(6) {
        0 => u64::MAX,
        1 => (cap + 1) as u64,
        2 => cap as u64,
        3 => 0,
        _ => rng.below(cap as u64 + 1),
    };
    out.extend_from_slice(&n.to_le_bytes());
    let take = (n.min(cap as u64)) as usize;
    out.extend_from_slice(&rng.bytes(take));
}

fn user_fields(rng: &mut Rng, out: &mut Vec<u8>, desc: &mut Vec<String>) {
    bytes_field(rng, 64, out); // user.id
    for cap in [128usize, 64, 64] {
        // icon, name, displayName: presence flag, then the text
        if rng.chance(4, 5) {
            out.push(1);
            desc.push(text_field(rng, cap, out));
        } else {
            out.push(0);
        }
    }
}

/// Entropy laid out along the generators' own consumption order so that generation gets as far
/// as the text and byte fields of MakeCredential / CredentialManagement requests.
fn grammar_entropy(rng: &mut Rng) -> (Vec<u8>, String) {
    let mut e = Vec::new();
    let mut desc = Vec::new();
    if rng.chance(1, 5) {
        // variant choice, a few small structure bytes, then a long run of 1-4 byte characters, and a tail of
        // large length bytes: whichever way a text or byte field draws its length (front or tail), it gets
        // long well-formed multi-byte content
        let sel = [0u8, 0xA0, 0x20, 0x70][rng.usize_below(4)].wrapping_add(rng.below(20) as u8);
        e.extend_from_slice(&[rng.next() as u8, rng.next() as u8, rng.next() as u8, sel]);
        for _ in 0..rng.usize_below(6) {
            e.push(rng.below(2) as u8);
        }
        let n = 130 + rng.usize_below(700);
        e.extend_from_slice(&crate::schema::utf8_text(rng, n));
        for _ in 0..rng.usize_below(6) {
            e.push(1);
            let m = 60 + rng.usize_below(200);
            e.extend_from_slice(&crate::schema::utf8_text(rng, m));
        }
        let tail_n = 2 + rng.usize_below(10);
        for _ in 0..tail_n {
            e.push(*rng.pick(&[0xffu8, 0x80, 200, 129, 130, 64, 33, 1, 0]));
        }
        return (e, format!("variant byte 0x{:02x}, {} bytes of 1-4 byte characters, {} large tail length bytes", sel, n, tail_n));
    }
    if rng.chance(2, 3) {
        // derived enum choice: (u32 * 10) >> 32 == 0 -> MakeCredential
        e.extend_from_slice(&[rng.next() as u8, rng.next() as u8, rng.next() as u8, rng.below(25) as u8]);
        desc.push("MakeCredential".to_string());
        desc.push(text_field(rng, 256, &mut e)); // rp.id
        if rng.chance(4, 5) {
            e.push(1);
            desc.push(text_field(rng, 64, &mut e)); // rp.name
        } else {
            e.push(0);
        }
        e.push(rng.below(2) as u8); // rp.icon present?
        user_fields(rng, &mut e, &mut desc);
    } else {
        // == 6 -> CredentialManagement
        e.extend_from_slice(&[rng.next() as u8, rng.next() as u8, rng.next() as u8, 0xA0 + rng.below(12) as u8]);
        desc.push("CredentialManagement".to_string());
        e.extend_from_slice(&rng.bytes(4)); // sub-command choice
        e.push(1); // sub_command_params present
        if rng.coin() {
            e.push(1);
            e.extend_from_slice(&rng.bytes(32)); // rp_id_hash
        } else {
            e.push(0);
        }
        e.push(0); // no credential id
        e.push(1); // user present
        user_fields(rng, &mut e, &mut desc);
    }
    if rng.chance(1, 6) {
        // ClientPin with a key-agreement key: two (or, after a refactoring, one) length-prefixed byte fields
        let mut e = vec![rng.next() as u8, rng.next() as u8, rng.next() as u8, 103 + rng.below(24) as u8];
        e.push(rng.below(3) as u8); // pin protocol
        e.extend_from_slice(&rng.bytes(4)); // sub-command choice
        e.push(1); // key agreement present
        let mut lens = Vec::new();
        for _ in 0..2 {
            let n: u64 = match rng.below(4) {
                0 => *rng.pick(&[0u64, 1, 2, 15, 16, 17, 31, 32, 33, 47, 63, 64, 65]),
                1 => rng.below(70),
                2 => u64::MAX,
                _ => 32,
            };
            lens.push(n);
            e.extend_from_slice(&n.to_le_bytes());
            let take = n.min(64) as usize;
            e.extend_from_slice(&rng.bytes(take));
        }
        e.extend_from_slice(&[0u8; 48]);
        return (e, format!("ClientPin with key agreement, coordinate length prefixes {:?}", lens));
    }
    if rng.chance(1, 4) {
        // GetAssertion / ClientPin: the relying-party id is a borrowed &str whose length is read from
        // the END of the data (one byte while at most 256 bytes remain, two bytes big-endian beyond)
        let long = rng.coin();
        let n1 = if long { 257 + rng.usize_below(120) } else { rng.usize_below(150) };
        let mut text = crate::schema::utf8_text(rng, n1);
        if rng.chance(1, 8) && !text.is_empty() {
            let k = rng.usize_below(text.len());
            text[k] = 0xff;
        }
        let client_pin = rng.chance(1, 3);
        let mut e = Vec::new();
        if client_pin {
            e.extend_from_slice(&[rng.next() as u8, rng.next() as u8, rng.next() as u8, 103 + rng.below(24) as u8]);
            e.push(rng.below(3) as u8); // pin protocol
            e.extend_from_slice(&rng.bytes(4)); // sub-command choice
            e.extend_from_slice(&[0, 0, 0, 0, 0, 0]); // no key agreement, pin auth, new pin, pin hash, placeholders
            e.extend_from_slice(&[1, rng.next() as u8]); // permissions
            e.push(1); // rp id present
            e.extend_from_slice(&text);
            e.extend_from_slice(&[0u8; 24]);
        } else {
            e.extend_from_slice(&[rng.next() as u8, rng.next() as u8, rng.next() as u8, 26 + rng.below(25) as u8]);
            e.extend_from_slice(&text);
            e.extend_from_slice(&[0u8; 40]); // empty client data hash, no lists, no extensions, ...
            // length of the client data hash (read second): zero
            if long { e.extend_from_slice(&[0, 0]) } else { e.push(0) }
        }
        // length of the rp id (read first, so it sits at the very end)
        if e.len() + 2 > 256 {
            e.extend_from_slice(&(text.len() as u16).to_be_bytes());
        } else {
            e.push(text.len() as u8);
        }
        return (e, format!("{} with a {}-byte relying-party id of 1-4 byte characters (length in the tail)", if client_pin { "ClientPin" } else { "GetAssertion" }, text.len()));
    }
    if rng.chance(1, 4) {
        // CredentialManagement with a credential descriptor: its id (&[u8]) and type (&str) come from
        // the arbitrary crate's own generators, which read their lengths from the END of the data
        // (last byte first) and their content from the cursor. Total kept below 256 bytes so that
        // each length is one byte.
        let mut e = vec![rng.next() as u8, rng.next() as u8, rng.next() as u8, 0xA0 + rng.below(12) as u8];
        e.extend_from_slice(&rng.bytes(4)); // sub-command choice
        e.push(1); // sub_command_params present
        e.push(0); // no rp_id_hash
        e.push(1); // credential id present
        let n_id = rng.usize_below(40);
        let n_ty = *rng.pick(&[0usize, 10, 31, 32, 33, 34, 40, 64, 100]);
        e.extend_from_slice(&rng.bytes(n_id));
        // text whose multi-byte characters fall on every offset near 32
        let lead = rng.usize_below(n_ty + 1);
        let mut ty = crate::schema::utf8_text(rng, lead);
        while ty.len() < n_ty {
            ty.extend_from_slice("é€😀".as_bytes());
        }
        if rng.chance(1, 6) && !ty.is_empty() {
            let k = rng.usize_below(ty.len());
            ty[k] = 0xff; // ill-formed in the middle
        }
        let n_ty = ty.len().min(120);
        e.extend_from_slice(&ty[..n_ty]);
        e.push(rng.below(2) as u8); // user present?
        e.extend_from_slice(&[0u8; 24]);
        e.push(n_ty as u8);
        e.push(n_id as u8);
        return (e, format!("CredentialManagement with descriptor: id {} bytes, type {} bytes (lengths in the tail)", n_id, n_ty));
    }
    // tail: lengths of borrowed byte strings are read from the end of the data
    let tail = match rng.below(3) {
        0 => vec![0u8; 64],
        1 => {
            let mut t = vec![0u8; 63];
            t.push(rng.below(8) as u8);
            t
        }
        _ => rng.bytes(48),
    };
    e.extend_from_slice(&tail);
    (e, desc.join("; "))
}

/// Every run also feeds four of the 256 single-byte-repeated patterns (so that 64 runs cover all of
/// them) at three lengths, to all three generators.
fn pattern_steps(run: u64) -> Vec<Step> {
    let mut steps = Vec::new();
    for j in 0..4u64 {
        let b = ((run * 4 + j) % 256) as u8;
        for n in [5usize, 40, 300, 1100] {
            for generator in 0..3u8 {
                steps.push(Step::Generate(GenSpec { generator, take_rest: (n + generator as usize) % 2 == 0, entropy: vec![b; n], desc: format!("{} bytes of 0x{:02x}", n, b) }));
            }
        }
    }
    steps
}

pub fn gen(seed: u64, run: u64, tier: &str) -> Vec<Step> {
    let mut steps = gen_main(seed, run, tier);
    steps.extend(pattern_steps(run));
    steps
}

fn gen_main(seed: u64, run: u64, tier: &str) -> Vec<Step> {
    let mut rng = Rng::new(seed, run, 19);
    let kind = run % 7;
    if kind >= 5 {
        // grammar-aware entropy: the same fields reach the CTAP2 generator directly and the combined
        // generator behind its own variant choice
        let (e, what) = grammar_entropy(&mut rng);
        let mut steps = Vec::new();
        let mut combined = vec![0xff, 0xff, 0xff, 0xff];
        combined.extend_from_slice(&e);
        for (generator, ent) in [(1u8, &e), (2u8, &combined), (0u8, &e)] {
            let mut cuts: Vec<usize> = vec![ent.len()];
            // EOF inside every field: every offset (dense in quick/thorough, sparse in selfcheck)
            let stepby = if tier == "selfcheck" { 7 } else { 1 };
            cuts.extend((0..ent.len().min(420)).step_by(stepby));
            cuts.sort();
            cuts.dedup();
            for k in cuts {
                let rests: &[bool] = if k == ent.len() { &[false, true] } else if k % 2 == 0 { &[false] } else { &[true] };
                if generator == 0 && k != ent.len() && k % 8 != 0 {
                    continue;
                }
                for take_rest in rests {
                    steps.push(Step::Generate(GenSpec { generator, take_rest: *take_rest, entropy: ent[..k].to_vec(), desc: format!("field-aligned entropy [{}], cut at {}", what, k) }));
                }
            }
        }
        return steps;
    }
    let (base, what): (Vec<u8>, String) = match kind {
        0 => {
            let b = (run / 5 % 256) as u8;
            let n = LENS[(run / 5 / 256 % LENS.len() as u64) as usize].max(if run / 5 < 256 { 300 } else { 0 });
            (vec![b; n], format!("{} bytes of 0x{:02x}", n, b))
        }
        1 => {
            let n = *rng.pick(&LENS);
            (rng.bytes(n), format!("{} random bytes", n))
        }
        2 => {
            let n = *rng.pick(&LENS[3..]);
            (utf8_mix(&mut rng, n), format!("{} bytes of complete and cut UTF-8 sequences", n))
        }
        3 => {
            // steer the derived enum choice (first bytes) and keep length prefixes small so that generation gets far
            let n = 300 + rng.usize_below(3000);
            let mut b = utf8_mix(&mut rng, n);
            b[3] = (rng.below(10) as u8).wrapping_mul(26).wrapping_add(rng.below(20) as u8);
            (b, format!("{} bytes, steered variant byte, UTF-8 mix", n))
        }
        _ => {
            let n = *rng.pick(&[64usize, 512, 4096]);
            let b = if rng.coin() { vec![0u8; n] } else { vec![0xffu8; n] };
            (b, format!("{} bytes all-{}", n, if rng.coin() { "zero/ff" } else { "ff/zero" }))
        }
    };
    let mut steps = Vec::new();
    // entropy_eof(k): every offset up to 256 (64 in selfcheck), seeded offsets beyond, and the whole string
    let dense_to = if tier == "selfcheck" { 48 } else { 256 };
    let mut cuts: Vec<usize> = (0..=base.len().min(dense_to)).collect();
    for _ in 0..24 {
        if base.len() > dense_to {
            cuts.push(dense_to + rng.usize_below(base.len() - dense_to + 1));
        }
    }
    cuts.push(base.len());
    cuts.sort();
    cuts.dedup();
    for k in cuts {
        for generator in 0..3u8 {
            // both entry points on a rotating schedule; the full string gets both
            let rests: &[bool] = if k == base.len() || k % 16 == 0 { &[false, true] } else if (k + generator as usize) % 2 == 0 { &[false] } else { &[true] };
            for take_rest in rests {
                steps.push(Step::Generate(GenSpec { generator, take_rest: *take_rest, entropy: base[..k].to_vec(), desc: format!("{}, cut at {}", what, k) }));
            }
        }
    }
    steps
}

pub fn account(step: &Step, outcome: &str, stats: &mut Stats) {
    if let Step::Generate(x) = step {
        stats.evaluations += 1;
        stats.real_calls += 1;
        stats.fault("entropy_eof");
        if outcome.starts_with("skip") {
            stats.probe("skipped_no_arbitrary_feature");
            return;
        }
        if x.take_rest {
            stats.probe("take_rest_entry_point");
        }
        if outcome == "not_enough" {
            stats.probe("not_enough_data");
            // an EOF after at least a length prefix was consumed
            if x.entropy.len() >= 9 {
                stats.probe("eof_between_length_and_data");
            }
            stats.distinct(&[&x.generator.to_string(), "eof", &(x.entropy.len().min(300)).to_string()]);
            return;
        }
        stats.probe("generated_ok");
        let mut it = outcome.split(':');
        it.next();
        let variant = it.next().unwrap_or("");
        let strings: u32 = it.next().and_then(|v| v.parse().ok()).unwrap_or(0);
        match x.generator {
            0 => stats.probe("ctap1_generated"),
            1 => stats.probe("ctap2_generated"),
            _ => stats.probe("combined_generated"),
        }
        if strings > 0 && std::str::from_utf8(&x.entropy).is_err() {
            stats.fault("entropy_badutf8");
            stats.probe("ill_formed_utf8_reached_a_string");
        }
        stats.probe(&format!("variant_{}", variant));
        stats.distinct(&[&x.generator.to_string(), variant, &x.take_rest.to_string(), &(x.entropy.len() / 16).to_string()]);
        if stats.evaluations % 7919 == 1 {
            let mut j = x.to_json();
            j.set("entropy", s(json::hex(&x.entropy[..x.entropy.len().min(48)])));
            j.set("outcome", s(outcome));
            stats.sample(j);
        }
    }
}
