//! Host-side parameter tables of the CTAP2 commands, written from the CTAP 2.2
//! specification (section 6.1, 6.2, 6.5, 6.8, 6.10 and the WebAuthn entity
//! dictionaries), not from the crate's structs. Feature-dependent members follow the
//! build configuration of the harness (which forwards its features to the crate).

use crate::cbor::{int, t, Path, Step, V};
use crate::prng::Rng;

#[derive(Clone, Debug, PartialEq)]
pub enum K {
    I(i64),
    T(&'static str),
}

impl K {
    pub fn v(&self) -> V {
        match self {
            K::I(i) => int(*i),
            K::T(s) => t(s),
        }
    }
}

#[derive(Clone, Copy, Debug, PartialEq)]
pub enum Lossy {
    /// over-long values are a fault
    No,
    /// over-long values are truncated (names)
    Truncate,
    /// over-long values are dropped (user icon)
    Drop,
    /// any value is accepted and discarded (rp icon)
    Discard,
}

#[derive(Clone, Debug)]
pub enum Ty {
    Bytes { max: Option<usize>, exact: Option<usize>, typical: usize },
    Text { max: Option<usize>, lossy: Lossy, fixed: Option<&'static str> },
    /// unsigned integer of the given width in bits (8 or 32)
    UInt { bits: u8 },
    /// signed 32-bit integer (COSE algorithm identifier)
    Int32,
    Bool,
    /// unsigned 8-bit enumeration with the listed assigned values
    Enum(Vec<u64>),
    /// array; `filtered` = a lossy list (unknown entries dropped, any count accepted)
    Array { elem: Box<Ty>, max: Option<usize>, filtered: bool },
    Map(MapSchema),
    /// COSE_Key for ECDH-ES+HKDF-256 on P-256 (key agreement)
    CoseEcdh,
}

#[derive(Clone, Debug)]
pub struct Member {
    pub key: K,
    pub name: &'static str,
    pub ty: Ty,
    pub required: bool,
}

#[derive(Clone, Debug)]
pub struct MapSchema {
    pub name: &'static str,
    pub members: Vec<Member>,
}

fn m(key: K, name: &'static str, ty: Ty, required: bool) -> Member {
    Member { key, name, ty, required }
}

fn bytes_unbounded(typical: usize) -> Ty {
    Ty::Bytes { max: None, exact: None, typical }
}
fn text(max: Option<usize>, lossy: Lossy) -> Ty {
    Ty::Text { max, lossy, fixed: None }
}
fn u32t() -> Ty {
    Ty::UInt { bits: 32 }
}
fn u8t() -> Ty {
    Ty::UInt { bits: 8 }
}

pub fn rp_entity() -> MapSchema {
    MapSchema {
        name: "rp",
        members: vec![
            m(K::T("id"), "rp.id", text(Some(256), Lossy::No), true),
            m(K::T("icon"), "rp.icon", text(None, Lossy::Discard), false),
            m(K::T("name"), "rp.name", text(Some(64), Lossy::Truncate), false),
        ],
    }
}

pub fn user_entity() -> MapSchema {
    MapSchema {
        name: "user",
        members: vec![
            m(K::T("id"), "user.id", Ty::Bytes { max: Some(64), exact: None, typical: 32 }, true),
            m(K::T("icon"), "user.icon", text(Some(128), Lossy::Drop), false),
            m(K::T("name"), "user.name", text(Some(64), Lossy::Truncate), false),
            m(K::T("displayName"), "user.displayName", text(Some(64), Lossy::Truncate), false),
        ],
    }
}

pub fn descriptor() -> MapSchema {
    MapSchema {
        name: "descriptor",
        members: vec![
            m(K::T("id"), "descriptor.id", bytes_unbounded(64), true),
            m(
                K::T("type"),
                "descriptor.type",
                Ty::Text { max: None, lossy: Lossy::No, fixed: Some("public-key") },
                true,
            ),
        ],
    }
}

pub fn cred_param() -> MapSchema {
    MapSchema {
        name: "credParam",
        members: vec![
            m(K::T("alg"), "credParam.alg", Ty::Int32, true),
            m(
                K::T("type"),
                "credParam.type",
                Ty::Text { max: Some(32), lossy: Lossy::No, fixed: Some("public-key") },
                true,
            ),
        ],
    }
}

pub fn options() -> MapSchema {
    MapSchema {
        name: "options",
        members: vec![
            m(K::T("rk"), "options.rk", Ty::Bool, false),
            m(K::T("up"), "options.up", Ty::Bool, false),
            m(K::T("uv"), "options.uv", Ty::Bool, false),
        ],
    }
}

pub fn mc_extensions() -> MapSchema {
    #[allow(unused_mut)]
    let mut members = vec![
        m(K::T("credProtect"), "ext.credProtect", u8t(), false),
        m(K::T("hmac-secret"), "ext.hmac-secret", Ty::Bool, false),
        m(K::T("largeBlobKey"), "ext.largeBlobKey", Ty::Bool, false),
    ];
    #[cfg(feature = "third-party-payment")]
    members.push(m(K::T("thirdPartyPayment"), "ext.thirdPartyPayment", Ty::Bool, false));
    MapSchema { name: "mcExtensions", members }
}

pub fn hmac_secret_input() -> MapSchema {
    MapSchema {
        name: "hmacSecret",
        members: vec![
            m(K::I(1), "hmac.keyAgreement", Ty::CoseEcdh, true),
            m(K::I(2), "hmac.saltEnc", Ty::Bytes { max: Some(80), exact: None, typical: 64 }, true),
            m(K::I(3), "hmac.saltAuth", Ty::Bytes { max: Some(32), exact: None, typical: 16 }, true),
            m(K::I(4), "hmac.pinProtocol", u32t(), false),
        ],
    }
}

pub fn ga_extensions() -> MapSchema {
    #[allow(unused_mut)]
    let mut members = vec![
        m(K::T("hmac-secret"), "ext.hmac-secret", Ty::Map(hmac_secret_input()), false),
        m(K::T("largeBlobKey"), "ext.largeBlobKey", Ty::Bool, false),
    ];
    #[cfg(feature = "third-party-payment")]
    members.push(m(K::T("thirdPartyPayment"), "ext.thirdPartyPayment", Ty::Bool, false));
    MapSchema { name: "gaExtensions", members }
}

fn formats_pref() -> Ty {
    Ty::Array { elem: Box::new(text(None, Lossy::No)), max: None, filtered: true }
}

pub fn make_credential() -> MapSchema {
    MapSchema {
        name: "makeCredential",
        members: vec![
            m(K::I(1), "clientDataHash", bytes_unbounded(32), true),
            m(K::I(2), "rp", Ty::Map(rp_entity()), true),
            m(K::I(3), "user", Ty::Map(user_entity()), true),
            m(
                K::I(4),
                "pubKeyCredParams",
                Ty::Array { elem: Box::new(Ty::Map(cred_param())), max: None, filtered: true },
                true,
            ),
            m(
                K::I(5),
                "excludeList",
                Ty::Array { elem: Box::new(Ty::Map(descriptor())), max: Some(16), filtered: false },
                false,
            ),
            m(K::I(6), "extensions", Ty::Map(mc_extensions()), false),
            m(K::I(7), "options", Ty::Map(options()), false),
            m(K::I(8), "pinUvAuthParam", bytes_unbounded(32), false),
            m(K::I(9), "pinUvAuthProtocol", u32t(), false),
            m(K::I(10), "enterpriseAttestation", u32t(), false),
            m(K::I(11), "attestationFormatsPreference", formats_pref(), false),
        ],
    }
}

pub fn get_assertion() -> MapSchema {
    MapSchema {
        name: "getAssertion",
        members: vec![
            m(K::I(1), "rpId", text(None, Lossy::No), true),
            m(K::I(2), "clientDataHash", bytes_unbounded(32), true),
            m(
                K::I(3),
                "allowList",
                Ty::Array { elem: Box::new(Ty::Map(descriptor())), max: Some(10), filtered: false },
                false,
            ),
            m(K::I(4), "extensions", Ty::Map(ga_extensions()), false),
            m(K::I(5), "options", Ty::Map(options()), false),
            m(K::I(6), "pinUvAuthParam", bytes_unbounded(32), false),
            m(K::I(7), "pinUvAuthProtocol", u32t(), false),
            m(K::I(8), "enterpriseAttestation", u32t(), false),
            m(K::I(9), "attestationFormatsPreference", formats_pref(), false),
        ],
    }
}

pub fn client_pin() -> MapSchema {
    MapSchema {
        name: "clientPin",
        members: vec![
            m(K::I(1), "pinUvAuthProtocol", u8t(), true),
            m(K::I(2), "subCommand", Ty::Enum(vec![1, 2, 3, 4, 5, 6, 7, 9]), true),
            m(K::I(3), "keyAgreement", Ty::CoseEcdh, false),
            m(K::I(4), "pinUvAuthParam", bytes_unbounded(32), false),
            m(K::I(5), "newPinEnc", bytes_unbounded(64), false),
            m(K::I(6), "pinHashEnc", bytes_unbounded(16), false),
            m(K::I(9), "permissions", u8t(), false),
            m(K::I(10), "rpId", text(None, Lossy::No), false),
        ],
    }
}

pub fn cm_params() -> MapSchema {
    MapSchema {
        name: "subCommandParams",
        members: vec![
            m(K::I(1), "rpIDHash", Ty::Bytes { max: Some(32), exact: Some(32), typical: 32 }, false),
            m(K::I(2), "credentialID", Ty::Map(descriptor()), false),
            m(K::I(3), "user", Ty::Map(user_entity()), false),
        ],
    }
}

pub fn credential_management() -> MapSchema {
    MapSchema {
        name: "credentialManagement",
        members: vec![
            m(K::I(1), "subCommand", Ty::Enum(vec![1, 2, 3, 4, 5, 6, 7]), true),
            m(K::I(2), "subCommandParams", Ty::Map(cm_params()), false),
            m(K::I(3), "pinUvAuthProtocol", u8t(), false),
            m(K::I(4), "pinUvAuthParam", bytes_unbounded(16), false),
        ],
    }
}

pub fn large_blobs() -> MapSchema {
    MapSchema {
        name: "largeBlobs",
        members: vec![
            m(K::I(1), "get", u32t(), false),
            m(K::I(2), "set", bytes_unbounded(64), false),
            m(K::I(3), "offset", u32t(), true),
            m(K::I(4), "length", u32t(), false),
            m(K::I(5), "pinUvAuthParam", bytes_unbounded(32), false),
            m(K::I(6), "pinUvAuthProtocol", u32t(), false),
        ],
    }
}

/// Parameter-bearing command bytes and their tables.
pub const PARAM_CMDS: [u8; 6] = [0x01, 0x02, 0x06, 0x0A, 0x41, 0x0C];

pub fn schema_for(cmd: u8) -> Option<MapSchema> {
    Some(match cmd {
        0x01 => make_credential(),
        0x02 => get_assertion(),
        0x06 => client_pin(),
        0x0A | 0x41 => credential_management(),
        0x0C => large_blobs(),
        _ => return None,
    })
}

/// What the CTAP 2.2 command table says about a command byte.
#[derive(Clone, Copy, Debug, PartialEq)]
pub enum CmdClass {
    /// carries a parameter map
    Params,
    /// assigned, no parameters (GetInfo, Reset, GetNextAssertion, Selection)
    NoParams,
    /// vendor range 0x40..=0x7f minus the reassigned 0x40/0x41
    Vendor,
    /// assigned by FIDO but not supported by this crate (bio enrolment, config)
    Unsupported,
    Unassigned,
}

pub fn classify_cmd(b: u8) -> CmdClass {
    match b {
        0x01 | 0x02 | 0x06 | 0x0A | 0x0C | 0x41 => CmdClass::Params,
        0x04 | 0x07 | 0x08 | 0x0B => CmdClass::NoParams,
        0x09 | 0x0D | 0x40 => CmdClass::Unsupported,
        0x42..=0x7f => CmdClass::Vendor,
        _ => CmdClass::Unassigned,
    }
}

// ------------------------------------------------------------------ generation

#[derive(Clone, Copy, Debug, PartialEq)]
pub enum GenMode {
    /// every member present, typical sizes
    Max,
    /// required members only, smallest values
    Min,
    /// each optional member present with probability 1/2, values from the boundary lattice or random
    Random,
}

/// 1-4 byte characters, including ones whose case mappings change their UTF-8 length
/// (U+0130, U+023A, U+023E grow when lower-cased; U+0149, U+0390, U+FB01, U+1E9E, U+212A change when
/// upper- or lower-cased), a combining mark and an upper-case ASCII letter.
const UTF8_SAMPLES: [&str; 16] = ["a", "é", "€", "😀", "ß", "z", "İ", "Ⱥ", "Ⱦ", "ŉ", "ΐ", "ﬁ", "ẞ", "K", "\u{301}", "Q"];

/// Strings that code handling relying-party ids, names, icons and type identifiers might treat
/// specially (separators, schemes, empty labels, NUL, whitespace, case variants).
pub const SPECIAL_TEXTS: [&str; 24] = [
    ".", "..", "a.", ".a", "example.com.", "localhost", "xn--", " ", "\0", "\n", "data:", "data:image/png;base64,AA==", "https://", "http://a", "/", "%00", "public-key", "Public-Key", "public-key\0", "packed", "none", "*", "a@b", "\u{feff}",
];

/// Text of exactly `n` bytes made of 1..4-byte characters (n >= 0).
pub fn utf8_text(rng: &mut Rng, n: usize) -> Vec<u8> {
    let mut out = Vec::with_capacity(n);
    while out.len() < n {
        let left = n - out.len();
        let c = UTF8_SAMPLES[rng.usize_below(UTF8_SAMPLES.len())];
        if c.len() <= left {
            out.extend_from_slice(c.as_bytes());
        } else {
            out.push(b'x');
        }
    }
    out
}

fn lattice_len(rng: &mut Rng, cap: usize) -> usize {
    // block sizes that code handling keys, hashes, IVs and salts tends to compare against, and their neighbours
    const BLOCKS: [usize; 15] = [15, 16, 17, 23, 24, 31, 32, 33, 47, 48, 49, 63, 64, 65, 80];
    match rng.below(8) {
        0 => 0,
        1 => 1.min(cap),
        2 => cap.saturating_sub(1),
        3 => cap,
        4 | 5 => (*rng.pick(&BLOCKS)).min(cap),
        _ => rng.usize_below(cap + 1),
    }
}

fn lattice_uint(rng: &mut Rng, max: u64) -> u64 {
    let cands = [0u64, 1, 23, 24, 255, 256, 65535, 65536, max - 1, max];
    // most unsigned CTAP members are small enumerators (protocol versions 1/2, policies 1..3, flags)
    if rng.chance(1, 3) {
        return rng.below(11).min(max);
    }
    if rng.chance(2, 3) {
        let c = *rng.pick(&cands);
        c.min(max)
    } else {
        rng.below(max) // max itself comes from the lattice
    }
}

pub fn cose_ecdh(rng: &mut Rng, mode: GenMode) -> V {
    let (x, y) = match mode {
        GenMode::Min => (vec![], vec![]),
        GenMode::Max => (rng.content(32), rng.content(32)),
        GenMode::Random => {
            let a = lattice_len(rng, 32);
            let b = lattice_len(rng, 32);
            (rng.content(a), rng.content(b))
        }
    };
    let mut m = vec![(int(1), int(2))];
    // alg (label 3) is optional in COSE_Key
    if mode != GenMode::Min && (mode == GenMode::Max || rng.coin()) {
        m.push((int(3), int(-25)));
    }
    m.push((int(-1), int(1)));
    m.push((int(-2), V::B(x)));
    m.push((int(-3), V::B(y)));
    V::M(m)
}

pub fn gen_ty(ty: &Ty, rng: &mut Rng, mode: GenMode) -> V {
    match ty {
        Ty::Bytes { max, exact, typical } => {
            let n = if let Some(e) = exact {
                *e
            } else {
                match mode {
                    GenMode::Min => 0,
                    GenMode::Max => *typical,
                    GenMode::Random => match max {
                        Some(c) => lattice_len(rng, *c),
                        None => {
                            if rng.chance(1, 8) {
                                rng.usize_below(600)
                            } else {
                                lattice_len(rng, typical * 2)
                            }
                        }
                    },
                }
            };
            V::B(rng.content(n))
        }
        Ty::Text { max, lossy, fixed } => {
            if let Some(f) = fixed {
                // descriptor / parameter type: almost always "public-key"
                if mode != GenMode::Random || rng.chance(7, 8) {
                    return t(f);
                }
            }
            if mode == GenMode::Random && rng.chance(1, 8) {
                return t(*rng.pick(&SPECIAL_TEXTS));
            }
            let n = match mode {
                GenMode::Min => 0,
                GenMode::Max => match max {
                    Some(c) => (*c).min(40),
                    None => 24,
                },
                GenMode::Random => match (max, lossy) {
                    (Some(c), Lossy::No) => lattice_len(rng, *c),
                    (Some(c), _) => {
                        // lossy members may legitimately exceed their capacity
                        if rng.chance(1, 3) {
                            c + 1 + rng.usize_below(3 * c)
                        } else {
                            lattice_len(rng, *c)
                        }
                    }
                    (None, _) => lattice_len(rng, 64),
                },
            };
            V::T(utf8_text(rng, n))
        }
        Ty::UInt { bits } => {
            let max = if *bits == 8 { 0xff } else { 0xffff_ffff };
            V::U(match mode {
                GenMode::Min => 0,
                GenMode::Max => 1,
                GenMode::Random => lattice_uint(rng, max),
            })
        }
        Ty::Int32 => match mode {
            GenMode::Min => int(-7),
            GenMode::Max => int(*rng.pick(&[-7i64, -8, -7, -257])),
            GenMode::Random => {
                // IANA COSE algorithm registry (what platforms actually list), then boundary values, then anything
                let cose: [i64; 22] = [-7, -8, -9, -19, -35, -36, -37, -38, -39, -47, -48, -49, -51, -52, -53, -257, -258, -259, -260, -261, -65535, 1];
                let c: [i64; 8] = [-1, 0, -24, -25, -65536, -(1i64 << 31), (1i64 << 31) - 1, 23];
                match rng.below(8) {
                    0..=4 => int(*rng.pick(&cose)),
                    5 | 6 => int(*rng.pick(&c)),
                    _ => int(rng.below(1 << 32) as i64 - (1i64 << 31)),
                }
            }
        },
        Ty::Bool => V::Bool(match mode {
            GenMode::Min => false,
            GenMode::Max => true,
            GenMode::Random => rng.coin(),
        }),
        Ty::Enum(vals) => V::U(match mode {
            GenMode::Min | GenMode::Max => vals[0],
            GenMode::Random => *rng.pick(vals),
        }),
        Ty::Array { elem, max, filtered } => {
            let n = match mode {
                GenMode::Min => {
                    if *filtered {
                        1
                    } else {
                        0
                    }
                }
                GenMode::Max => 3,
                GenMode::Random => match max {
                    Some(c) => lattice_len(rng, *c),
                    None => {
                        // platforms send a dozen algorithms; the changelog promises more than 12 are accepted
                        if rng.chance(1, 3) {
                            rng.usize_below(20)
                        } else {
                            rng.usize_below(5)
                        }
                    }
                },
            };
            let inner = if mode == GenMode::Min { GenMode::Min } else { mode };
            let mut a = Vec::new();
            for i in 0..n {
                // attestation formats: mostly the known names
                if let Ty::Text { max: None, lossy: Lossy::No, fixed: None } = **elem {
                    let names = ["packed", "none", "tpm", "android-key"];
                    let _ = i;
                    a.push(t(names[rng.usize_below(names.len())]));
                } else {
                    a.push(gen_ty(elem, rng, inner));
                }
            }
            V::A(a)
        }
        Ty::Map(s) => gen_map(s, rng, mode),
        Ty::CoseEcdh => cose_ecdh(rng, mode),
    }
}

pub fn gen_map(s: &MapSchema, rng: &mut Rng, mode: GenMode) -> V {
    let mut out = Vec::new();
    for mem in &s.members {
        let present = mem.required
            || match mode {
                GenMode::Max => true,
                GenMode::Min => false,
                GenMode::Random => rng.coin(),
            };
        if present {
            out.push((mem.key.v(), gen_ty(&mem.ty, rng, mode)));
        }
    }
    // canonical order (schemas are written in canonical order for int keys; text keys need sorting)
    crate::cbor::sort_canonical(&mut out);
    V::M(out)
}

pub fn find_member<'a>(s: &'a MapSchema, key: &V) -> Option<&'a Member> {
    s.members.iter().find(|mm| &mm.key.v() == key)
}

// ------------------------------------------------------------------ site enumeration

/// A place in a generated message together with what the host table says about it.
#[derive(Clone, Debug)]
pub struct Site {
    /// path of the value
    pub path: Path,
    /// path of the enclosing map and the entry index, when the value is a map member
    pub parent: Option<(Path, usize)>,
    pub name: String,
    pub ty: Ty,
    pub required: bool,
    /// true when the site is an element of an array (not a map member)
    pub is_elem: bool,
    /// COSE label when the site is a member of a COSE key
    pub cose_label: Option<i64>,
}

pub fn walk(schema: &MapSchema, root: &V) -> Vec<Site> {
    let mut out = Vec::new();
    walk_map(schema, root, &mut vec![], &mut out);
    out
}

fn walk_map(s: &MapSchema, v: &V, path: &mut Path, out: &mut Vec<Site>) {
    let V::M(entries) = v else { return };
    for (i, (k, val)) in entries.iter().enumerate() {
        let Some(mem) = find_member(s, k) else { continue };
        path.push(Step::Val(i));
        out.push(Site {
            path: path.clone(),
            parent: Some((path[..path.len() - 1].to_vec(), i)),
            name: mem.name.to_string(),
            ty: mem.ty.clone(),
            required: mem.required,
            is_elem: false,
            cose_label: None,
        });
        walk_ty(&mem.ty, mem.name, val, path, out);
        path.pop();
    }
}

fn walk_ty(ty: &Ty, name: &str, v: &V, path: &mut Path, out: &mut Vec<Site>) {
    match ty {
        Ty::Map(s) => walk_map(s, v, path, out),
        Ty::Array { elem, .. } => {
            if let V::A(a) = v {
                for (i, e) in a.iter().enumerate() {
                    path.push(Step::Idx(i));
                    out.push(Site {
                        path: path.clone(),
                        parent: None,
                        name: format!("{}[{}]", name, i),
                        ty: (**elem).clone(),
                        required: false,
                        is_elem: true,
                        cose_label: None,
                    });
                    walk_ty(elem, name, e, path, out);
                    path.pop();
                }
            }
        }
        Ty::CoseEcdh => {
            if let V::M(entries) = v {
                for (i, (k, _)) in entries.iter().enumerate() {
                    let label = match k {
                        V::U(n) => *n as i64,
                        V::N(n) => -1 - (*n as i64),
                        _ => continue,
                    };
                    let (ty, required) = match label {
                        1 => (Ty::Int32, true),
                        3 => (Ty::Int32, false),
                        -1 => (Ty::Int32, true),
                        -2 | -3 => (Ty::Bytes { max: Some(32), exact: None, typical: 32 }, true),
                        _ => continue,
                    };
                    path.push(Step::Val(i));
                    out.push(Site {
                        path: path.clone(),
                        parent: Some((path[..path.len() - 1].to_vec(), i)),
                        name: format!("{}.cose[{}]", name, label),
                        ty,
                        required,
                        is_elem: false,
                        cose_label: Some(label),
                    });
                    path.pop();
                }
            }
        }
        _ => {}
    }
}

/// All map nodes (path) of a message that belong to the schema (for key duplication).
pub fn map_nodes(schema: &MapSchema, root: &V) -> Vec<Path> {
    let mut out = vec![vec![]];
    for s in walk(schema, root) {
        match s.ty {
            Ty::Map(_) | Ty::CoseEcdh => out.push(s.path.clone()),
            _ => {}
        }
    }
    out
}
