//! C17 — a response fits the transport buffer completely or becomes the single byte 0x7F.
//!
//! The device owns one `heapless::Vec<u8, N>` per instantiated capacity N for the whole
//! session and reuses it for every response, like a transport does. Choosing N chooses
//! the byte at which the writer (`&mut [u8]` of length N-1) reports "full".

use crate::cbor;
use crate::core::Stats;
use crate::guard::guard;
use crate::json::{self, obj, s, J};
use crate::prng::Rng;
use crate::trace::{Device, Finding, Log, Step};
use ctap_types::ctap2::{self, Response};
use ctap_types::webauthn as wa;
use ctap_types::{Bytes, String as HString, Vec as HVec};

pub const REQUIRED_PROBES: [&str; 7] = [
    "fits_exactly",
    "one_byte_short",
    "sink_full_inside_body",
    "empty_map_collapse_at_cap_1",
    "body_over_1536",
    "prior_full_sentinel",
    "prior_previous_message",
];

pub trait TxBuf {
    fn cap(&self) -> usize;
    fn set_prior(&mut self, prior: u8);
    fn serialize(&mut self, r: &Response);
    fn bytes(&self) -> &[u8];
}

impl<const N: usize> TxBuf for heapless::Vec<u8, N> {
    fn cap(&self) -> usize {
        N
    }
    fn set_prior(&mut self, prior: u8) {
        match prior {
            0 => {} // whatever the previous message left
            1 => self.clear(),
            2 => {
                self.clear();
                let _ = self.resize(N / 2, 0xC3);
            }
            _ => {
                self.clear();
                let _ = self.resize(N, 0x5A);
            }
        }
    }
    fn serialize(&mut self, r: &Response) {
        r.serialize(self)
    }
    fn bytes(&self) -> &[u8] {
        self
    }
}

include!(concat!(env!("OUT_DIR"), "/tx_grid.rs"));

pub const REF_CAP: usize = 7609;

#[derive(Clone, Debug, PartialEq)]
pub struct RespSpec {
    /// 0 GetInfo, 1 MakeCredential, 2 GetAssertion, 3 GetNextAssertion, 4 ClientPin,
    /// 5 CredentialManagement, 6 LargeBlobs, 7 Reset, 8 Selection, 9 Vendor
    pub kind: u8,
    /// which optional members are set
    pub mask: u64,
    /// sizes / magnitudes
    pub p: [u32; 6],
    /// content seed
    pub fill: u64,
}

#[derive(Clone, Debug, PartialEq)]
pub struct RespondSpec {
    pub resp: RespSpec,
    pub cap: usize,
    /// 0 as left by the previous message, 1 emptied, 2 half-filled with a sentinel, 3 completely filled with a sentinel
    pub prior: u8,
}

pub const KIND_NAMES: [&str; 10] =
    ["GetInfo", "MakeCredential", "GetAssertion", "GetNextAssertion", "ClientPin", "CredentialManagement", "LargeBlobs", "Reset", "Selection", "Vendor"];

impl RespSpec {
    pub fn to_json(&self) -> J {
        obj(vec![
            ("kind", s(KIND_NAMES[self.kind as usize % 10])),
            ("mask", s(format!("{:x}", self.mask))),
            ("p", J::Arr(self.p.iter().map(|x| J::Int(*x as i64)).collect())),
            ("fill", s(format!("{:x}", self.fill))),
        ])
    }
    pub fn from_json(j: &J) -> Option<RespSpec> {
        let kind = KIND_NAMES.iter().position(|k| Some(*k) == j.get("kind").and_then(|x| x.str()))? as u8;
        let pv = j.get("p")?.arr()?;
        let mut p = [0u32; 6];
        for (i, x) in pv.iter().enumerate().take(6) {
            p[i] = x.int()? as u32;
        }
        Some(RespSpec {
            kind,
            mask: u64::from_str_radix(j.get("mask")?.str()?, 16).ok()?,
            p,
            fill: u64::from_str_radix(j.get("fill")?.str()?, 16).ok()?,
        })
    }
    pub fn shrinks(&self) -> Vec<RespSpec> {
        let mut out = Vec::new();
        if self.mask != 0 {
            out.push(RespSpec { mask: 0, ..self.clone() });
            for b in 0..40 {
                if self.mask & (1 << b) != 0 {
                    out.push(RespSpec { mask: self.mask & !(1 << b), ..self.clone() });
                }
            }
        }
        for i in 0..6 {
            if self.p[i] != 0 {
                let mut q = self.clone();
                q.p[i] = 0;
                out.push(q);
                let mut q = self.clone();
                q.p[i] /= 2;
                out.push(q);
                let mut q = self.clone();
                q.p[i] -= 1;
                out.push(q);
            }
        }
        if self.fill != 0 {
            out.push(RespSpec { fill: 0, ..self.clone() });
        }
        out
    }
}

impl RespondSpec {
    pub fn to_json(&self) -> J {
        obj(vec![("op", s("respond")), ("response", self.resp.to_json()), ("cap", json::i(self.cap)), ("prior", json::i(self.prior))])
    }
    pub fn from_json(j: &J) -> Option<RespondSpec> {
        Some(RespondSpec { resp: RespSpec::from_json(j.get("response")?)?, cap: j.get("cap")?.int()? as usize, prior: j.get("prior")?.int()? as u8 })
    }
    pub fn shrinks(&self) -> Vec<RespondSpec> {
        let mut out: Vec<RespondSpec> = self.resp.shrinks().into_iter().map(|r| RespondSpec { resp: r, ..self.clone() }).collect();
        if self.prior != 1 {
            out.push(RespondSpec { prior: 1, ..self.clone() });
        }
        for c in [1usize, 2, 3, self.cap / 2, self.cap.saturating_sub(1)] {
            if c >= 1 && c < self.cap && TX_CAPS.binary_search(&c).is_ok() {
                out.push(RespondSpec { cap: c, ..self.clone() });
            }
        }
        out
    }
}

// ------------------------------------------------------------------ building real responses through the public API

/// Member content: random, or bytes that mean something to a CBOR framer (empty-map byte, break,
/// zeros, a trailing `00 a0`, 0x7f), so that content-sensitive framing shortcuts are reached.
fn fill_bytes(fill: u64, tag: u64, n: usize) -> std::vec::Vec<u8> {
    let mut r = Rng::new(fill, tag, 17);
    let mut b = r.bytes(n);
    match (fill >> 3).wrapping_add(tag) % 10 {
        0 => b.iter_mut().for_each(|x| *x = 0x00),
        1 => b.iter_mut().for_each(|x| *x = 0xa0),
        2 => b.iter_mut().for_each(|x| *x = 0xff),
        3 => {
            if n >= 2 {
                b[n - 2] = 0x00;
                b[n - 1] = 0xa0;
            }
        }
        4 => {
            if n >= 1 {
                b[n - 1] = 0xa0;
                b[0] = 0xa0;
            }
        }
        5 => b.iter_mut().for_each(|x| *x = 0x7f),
        6 => {
            // DER-looking: SEQUENCE head whose short-form length is exact, too short or too long
            if n >= 2 {
                b[0] = 0x30;
                b[1] = match (fill >> 9) % 4 {
                    0 => (n - 2).min(0x7f) as u8,
                    1 => ((n - 2) / 2).min(0x7f) as u8,
                    2 => (n + 5).min(0x7f) as u8,
                    _ => 0x7f,
                };
            }
        }
        _ => {}
    }
    b
}

fn hbytes<const N: usize>(fill: u64, tag: u64, n: usize) -> Bytes<N> {
    Bytes::from_slice(&fill_bytes(fill, tag, n.min(N))).unwrap()
}

fn hstring<const N: usize>(fill: u64, tag: u64, n: usize) -> HString<N> {
    let mut r = Rng::new(fill, tag, 18);
    let b = crate::schema::utf8_text(&mut r, n.min(N));
    let mut st = HString::new();
    st.push_str(std::str::from_utf8(&b).unwrap()).unwrap();
    st
}

const USIZE_LATTICE: [u64; 9] = [0, 23, 24, 255, 256, 65535, 65536, 0xffff_ffff, u64::MAX];

fn lat(sel: u32, i: u32) -> usize {
    USIZE_LATTICE[((sel + i) as usize) % USIZE_LATTICE.len()] as usize
}

fn user_entity(mask: u64, shift: u32, id_len: usize, text_len: usize, fill: u64) -> wa::PublicKeyCredentialUserEntity {
    wa::PublicKeyCredentialUserEntity {
        id: hbytes(fill, 40, id_len),
        icon: if mask >> shift & 1 != 0 { Some(hstring(fill, 41, text_len * 2)) } else { None },
        name: if mask >> (shift + 1) & 1 != 0 { Some(hstring(fill, 42, text_len)) } else { None },
        display_name: if mask >> (shift + 2) & 1 != 0 { Some(hstring(fill, 43, text_len)) } else { None },
    }
}

/// COSE algorithm identifiers an authenticator may put in its responses: the two the crate's request
/// filter knows, other registered ones, and the CBOR integer-width boundaries.
const ALG_LATTICE: [i32; 20] = [-7, -8, -257, -7, -8, -35, -36, -65535, 0, 1, 23, 24, -24, -25, 255, 256, -256, 65536, i32::MAX, i32::MIN];

fn alg(fill: u64, i: u64) -> i32 {
    ALG_LATTICE[((fill >> 9) as usize).wrapping_add(i as usize * 7) % ALG_LATTICE.len()]
}

fn att_stmt(kind: u64, sig_len: usize, cert_len: usize, fill: u64) -> Option<ctap2::AttestationStatement> {
    match kind & 3 {
        0 => None,
        1 => Some(ctap2::AttestationStatement::None(ctap2::NoneAttestationStatement {})),
        2 => Some(ctap2::AttestationStatement::Packed(ctap2::PackedAttestationStatement { alg: alg(fill, 3), sig: hbytes(fill, 50, sig_len), x5c: None })),
        _ => {
            let mut v = HVec::new();
            v.push(hbytes(fill, 51, cert_len)).ok();
            Some(ctap2::AttestationStatement::Packed(ctap2::PackedAttestationStatement { alg: alg(fill, 4), sig: hbytes(fill, 50, sig_len), x5c: Some(v) }))
        }
    }
}

pub const GETINFO_OPTIONAL: usize = if cfg!(feature = "get-info-full") { 22 } else { 9 };

pub fn mask_bits(kind: u8) -> u32 {
    match kind {
        0 => GETINFO_OPTIONAL as u32 + 12, // + CtapOptions sub-members
        1 => 7,
        2 | 3 => 12,
        4 => 5,
        5 => {
            if cfg!(feature = "third-party-payment") {
                18
            } else {
                17
            }
        }
        6 => 1,
        _ => 0,
    }
}

pub fn build(spec: &RespSpec) -> Response {
    let f = spec.fill;
    let p = spec.p;
    let m = spec.mask;
    let bit = |b: u32| m >> b & 1 != 0;
    match spec.kind {
        0 => {
            use ctap2::get_info::*;
            let mut versions: HVec<Version, 4> = HVec::new();
            let all = [Version::Fido2_0, Version::Fido2_1, Version::Fido2_1Pre, Version::U2fV2];
            for i in 0..(p[0] % 5) as usize {
                versions.push(all[(i + p[1] as usize) % 4]).ok();
            }
            let mut r = ResponseBuilder { versions, aaguid: hbytes(f, 1, (p[3] % 17) as usize) }.build();
            let mut b = 0u32;
            let mut next = || {
                let v = bit(b);
                b += 1;
                v
            };
            if next() {
                let mut e: HVec<Extension, 4> = HVec::new();
                let all = [Extension::CredProtect, Extension::HmacSecret, Extension::LargeBlobKey, Extension::ThirdPartyPayment];
                for i in 0..(p[1] % 5) as usize {
                    e.push(all[i % 4]).ok();
                }
                r.extensions = Some(e);
            }
            let options_set = next();
            if next() {
                r.max_msg_size = Some(lat(p[2], 0));
            }
            if next() {
                let mut v: HVec<u8, 2> = HVec::new();
                for i in 0..(p[1] % 3) {
                    v.push((i as u8).wrapping_mul(201).wrapping_add(1)).ok();
                }
                r.pin_protocols = Some(v);
            }
            if next() {
                r.max_creds_in_list = Some(lat(p[2], 1));
            }
            if next() {
                r.max_cred_id_length = Some(lat(p[2], 2));
            }
            if next() {
                let mut v: HVec<Transport, 4> = HVec::new();
                for i in 0..(p[1] % 5) {
                    v.push(if i % 2 == 0 { Transport::Nfc } else { Transport::Usb }).ok();
                }
                r.transports = Some(v);
            }
            if next() {
                let mut v = wa::FilteredPublicKeyCredentialParameters(Default::default());
                for i in 0..(p[1] % 3) {
                    v.0.push(wa::KnownPublicKeyCredentialParameters { alg: alg(f, i as u64) }).ok();
                }
                r.algorithms = Some(v);
            }
            if next() {
                r.max_serialized_large_blob_array = Some(lat(p[2], 3));
            }
            #[cfg(feature = "get-info-full")]
            {
                if next() {
                    r.force_pin_change = Some(p[4] & 1 != 0);
                }
                if next() {
                    r.min_pin_length = Some(lat(p[2], 4));
                }
                if next() {
                    r.firmware_version = Some(lat(p[2], 5));
                }
                if next() {
                    r.max_cred_blob_length = Some(lat(p[2], 6));
                }
                if next() {
                    r.max_rpids_for_set_min_pin_length = Some(lat(p[2], 7));
                }
                if next() {
                    r.preferred_platform_uv_attempts = Some(lat(p[2], 8));
                }
                if next() {
                    r.uv_modality = Some(lat(p[2], 9));
                }
                if next() {
                    // `Certifications` has no public constructor: obtained by decoding host bytes
                    let names = ["FIPS-CMVP-2", "FIPS-CMVP-3", "FIPS-CMVP-2-PHY", "FIPS-CMVP-3-PHY", "CC-EAL", "FIDO"];
                    let mut mm = std::vec::Vec::new();
                    for (i, n) in names.iter().enumerate() {
                        if p[4] >> (i + 1) & 1 != 0 {
                            mm.push((cbor::t(n), cbor::V::U(((p[4] >> 8) as u8 as u64 + i as u64) % 256)));
                        }
                    }
                    let enc = cbor::enc(&cbor::V::M(mm));
                    r.certifications = cbor_smol::cbor_deserialize::<Certifications>(&enc).ok();
                }
                if next() {
                    r.remaining_discoverable_credentials = Some(lat(p[2], 10));
                }
                if next() {
                    r.vendor_prototype_config_commands = Some(lat(p[2], 11));
                }
                if next() {
                    let mut v: HVec<ctap2::AttestationStatementFormat, 2> = HVec::new();
                    for i in 0..(p[1] % 3) {
                        v.push(if i == 0 { ctap2::AttestationStatementFormat::Packed } else { ctap2::AttestationStatementFormat::None }).ok();
                    }
                    r.attestation_formats = Some(v);
                }
                if next() {
                    r.uv_count_since_last_pin_entry = Some(lat(p[2], 12));
                }
                if next() {
                    r.long_touch_for_reset = Some(p[4] & 2 != 0);
                }
            }
            if options_set {
                let mut o = CtapOptions::default();
                o.rk = next();
                o.up = next();
                let mut ob = |present: bool, val: bool| if present { Some(val) } else { None };
                let v = p[5];
                o.uv = ob(next(), v & 1 != 0);
                o.plat = ob(next(), v & 2 != 0);
                o.cred_mgmt = ob(next(), v & 4 != 0);
                o.client_pin = ob(next(), v & 8 != 0);
                o.large_blobs = ob(next(), v & 16 != 0);
                o.pin_uv_auth_token = ob(next(), v & 32 != 0);
                #[cfg(feature = "get-info-full")]
                {
                    let all = next();
                    let some = next();
                    let pick = |i: u32| all || (some && (v >> (8 + i)) & 1 != 0);
                    o.ep = ob(pick(0), v & 64 != 0);
                    o.uv_acfg = ob(pick(1), true);
                    o.always_uv = ob(pick(2), false);
                    o.authnr_cfg = ob(pick(3), true);
                    o.bio_enroll = ob(pick(4), false);
                    o.uv_bio_enroll = ob(pick(5), true);
                    o.set_min_pin_length = ob(pick(6), true);
                    o.make_cred_uv_not_rqd = ob(pick(7), false);
                    o.credential_mgmt_preview = ob(pick(8), true);
                    o.user_verification_mgmt_preview = ob(pick(9), false);
                    o.no_mc_ga_permissions_with_client_pin = ob(pick(10), true);
                }
                r.options = Some(o);
            }
            ctap2::Response::GetInfo(r)
        }
        1 => {
            use ctap2::make_credential::*;
            let mut r = ResponseBuilder {
                fmt: if bit(5) { ctap2::AttestationStatementFormat::Packed } else { ctap2::AttestationStatementFormat::None },
                auth_data: hbytes(f, 2, p[0] as usize),
            }
            .build();
            r.att_stmt = att_stmt(m & 3, p[1] as usize, p[2] as usize, f);
            if bit(2) {
                r.ep_att = Some(bit(3));
            }
            if bit(4) {
                r.large_blob_key = Some(serde_bytes::ByteArray::new(fill_bytes(f, 3, 32).try_into().unwrap()));
            }
            ctap2::Response::MakeCredential(r)
        }
        2 | 3 => {
            use ctap2::get_assertion::*;
            let mut r = ResponseBuilder {
                credential: wa::PublicKeyCredentialDescriptor { id: hbytes(f, 4, p[0] as usize), key_type: hstring(f, 5, if bit(11) { 32 } else { 10 }) },
                auth_data: hbytes(f, 6, p[1] as usize),
                signature: hbytes(f, 7, p[2] as usize),
            }
            .build();
            if bit(0) {
                r.user = Some(user_entity(m, 1, (p[3] % 65) as usize, (p[4] % 65) as usize, f));
            }
            if bit(4) {
                r.number_of_credentials = Some(lat(p[5], 0) as u32);
            }
            if bit(5) {
                r.user_selected = Some(p[5] & 1 != 0);
            }
            if bit(6) {
                r.large_blob_key = Some(serde_bytes::ByteArray::new(fill_bytes(f, 8, 32).try_into().unwrap()));
            }
            if bit(7) {
                r.unsigned_extension_outputs = cbor_smol::cbor_deserialize::<UnsignedExtensionOutputs>(&[0xa0]).ok();
            }
            if bit(8) {
                r.ep_att = Some(p[5] & 2 != 0);
            }
            r.att_stmt = att_stmt(m >> 9, p[2] as usize, (p[5] % 1025) as usize, f);
            if spec.kind == 2 {
                ctap2::Response::GetAssertion(r)
            } else {
                ctap2::Response::GetNextAssertion(r)
            }
        }
        4 => {
            let mut r = ctap2::client_pin::Response::default();
            if bit(0) {
                r.key_agreement = Some(cosey::EcdhEsHkdf256PublicKey { x: hbytes(f, 9, (p[2] % 33) as usize), y: hbytes(f, 10, (p[3] % 33) as usize) });
            }
            if bit(1) {
                r.pin_token = Some(hbytes(f, 11, (p[0] % 49) as usize));
            }
            if bit(2) {
                r.retries = Some(p[1] as u8);
            }
            if bit(3) {
                r.power_cycle_state = Some(p[1] & 0x100 != 0);
            }
            if bit(4) {
                r.uv_retries = Some((p[1] >> 8) as u8);
            }
            Response::ClientPin(r)
        }
        5 => {
            let mut r = ctap2::credential_management::Response::default();
            if bit(0) {
                r.existing_resident_credentials_count = Some(lat(p[4], 0) as u32);
            }
            if bit(1) {
                r.max_possible_remaining_residential_credentials_count = Some(lat(p[4], 1) as u32);
            }
            if bit(2) {
                r.rp = Some(wa::PublicKeyCredentialRpEntity {
                    id: hstring(f, 12, (p[1] % 257) as usize),
                    name: if bit(12) { Some(hstring(f, 13, (p[2] % 65) as usize)) } else { None },
                    icon: if bit(13) { Some(wa::Icon) } else { None },
                });
            }
            if bit(3) {
                r.rp_id_hash = Some(serde_bytes::ByteArray::new(fill_bytes(f, 14, 32).try_into().unwrap()));
            }
            if bit(4) {
                r.total_rps = Some(lat(p[4], 2) as u32);
            }
            if bit(5) {
                r.user = Some(user_entity(m, 14, (p[2] % 65) as usize, (p[2] % 65) as usize, f));
            }
            if bit(6) {
                r.credential_id = Some(wa::PublicKeyCredentialDescriptor { id: hbytes(f, 15, (p[3] % 256) as usize), key_type: hstring(f, 16, 10) });
            }
            if bit(7) {
                let x = hbytes(f, 17, (p[5] % 33) as usize);
                let y = hbytes(f, 18, (p[5] / 64 % 33) as usize);
                r.public_key = Some(match p[0] % 4 {
                    0 => cosey::PublicKey::P256Key(cosey::P256PublicKey { x, y }),
                    1 => cosey::PublicKey::EcdhEsHkdf256Key(cosey::EcdhEsHkdf256PublicKey { x, y }),
                    2 => cosey::PublicKey::Ed25519Key(cosey::Ed25519PublicKey { x }),
                    _ => cosey::PublicKey::TotpKey(cosey::TotpPublicKey {}),
                });
            }
            if bit(8) {
                r.total_credentials = Some(lat(p[4], 3) as u32);
            }
            if bit(9) {
                use ctap2::credential_management::CredentialProtectionPolicy as P;
                r.cred_protect = Some([P::Optional, P::OptionalWithCredentialIdList, P::Required][(p[0] / 4 % 3) as usize]);
            }
            if bit(10) {
                r.large_blob_key = Some(serde_bytes::ByteArray::new(fill_bytes(f, 19, 32).try_into().unwrap()));
            }
            #[cfg(feature = "third-party-payment")]
            if bit(17) {
                r.third_party_payment = Some(p[0] & 16 != 0);
            }
            Response::CredentialManagement(r)
        }
        6 => {
            let mut r = ctap2::large_blobs::Response::default();
            if bit(0) {
                r.config = Some(hbytes(f, 20, p[0] as usize));
            }
            Response::LargeBlobs(r)
        }
        7 => Response::Reset,
        8 => Response::Selection,
        _ => Response::Vendor,
    }
}

/// How many members the authenticator set in this response value (required ones included): the
/// body that "the whole CBOR body" refers to is a map with exactly that many entries.
pub fn member_count(r: &Response) -> usize {
    let c = |b: bool| b as usize;
    match r {
        Response::GetInfo(x) => {
            #[allow(unused_mut)]
            let mut n = 2
                + c(x.extensions.is_some())
                + c(x.options.is_some())
                + c(x.max_msg_size.is_some())
                + c(x.pin_protocols.is_some())
                + c(x.max_creds_in_list.is_some())
                + c(x.max_cred_id_length.is_some())
                + c(x.transports.is_some())
                + c(x.algorithms.is_some())
                + c(x.max_serialized_large_blob_array.is_some());
            #[cfg(feature = "get-info-full")]
            {
                n += c(x.force_pin_change.is_some())
                    + c(x.min_pin_length.is_some())
                    + c(x.firmware_version.is_some())
                    + c(x.max_cred_blob_length.is_some())
                    + c(x.max_rpids_for_set_min_pin_length.is_some())
                    + c(x.preferred_platform_uv_attempts.is_some())
                    + c(x.uv_modality.is_some())
                    + c(x.certifications.is_some())
                    + c(x.remaining_discoverable_credentials.is_some())
                    + c(x.vendor_prototype_config_commands.is_some())
                    + c(x.attestation_formats.is_some())
                    + c(x.uv_count_since_last_pin_entry.is_some())
                    + c(x.long_touch_for_reset.is_some());
            }
            n
        }
        Response::MakeCredential(x) => 2 + c(x.att_stmt.is_some()) + c(x.ep_att.is_some()) + c(x.large_blob_key.is_some()) + c(x.unsigned_extension_outputs.is_some()),
        Response::GetAssertion(x) | Response::GetNextAssertion(x) => {
            3 + c(x.user.is_some())
                + c(x.number_of_credentials.is_some())
                + c(x.user_selected.is_some())
                + c(x.large_blob_key.is_some())
                + c(x.unsigned_extension_outputs.is_some())
                + c(x.ep_att.is_some())
                + c(x.att_stmt.is_some())
        }
        Response::ClientPin(x) => c(x.key_agreement.is_some()) + c(x.pin_token.is_some()) + c(x.retries.is_some()) + c(x.power_cycle_state.is_some()) + c(x.uv_retries.is_some()),
        Response::CredentialManagement(x) => {
            #[allow(unused_mut)]
            let mut n = c(x.existing_resident_credentials_count.is_some())
                + c(x.max_possible_remaining_residential_credentials_count.is_some())
                + c(x.rp.is_some())
                + c(x.rp_id_hash.is_some())
                + c(x.total_rps.is_some())
                + c(x.user.is_some())
                + c(x.credential_id.is_some())
                + c(x.public_key.is_some())
                + c(x.total_credentials.is_some())
                + c(x.cred_protect.is_some())
                + c(x.large_blob_key.is_some());
            #[cfg(feature = "third-party-payment")]
            {
                n += c(x.third_party_payment.is_some());
            }
            n
        }
        Response::LargeBlobs(x) => c(x.config.is_some()),
        _ => 0,
    }
}

/// Does this response kind have a CBOR body at all (as opposed to Reset/Selection/Vendor)?
fn has_body(kind: u8) -> bool {
    kind <= 6
}

fn tx<'a>(dev: &'a mut Device, cap: usize) -> Option<&'a mut Box<dyn TxBuf>> {
    if !dev.tx.contains_key(&cap) {
        dev.tx.insert(cap, new_tx(cap)?);
    }
    dev.tx.get_mut(&cap)
}

fn finding(rule: &str, detail: String) -> Option<Finding> {
    Some(Finding { rule: rule.into(), detail })
}

pub fn exec(dev: &mut Device, x: &RespondSpec, log: &mut Log) -> Option<Finding> {
    let resp = match guard(|| build(&x.resp)) {
        Ok(r) => r,
        Err(p) => {
            log.event("respond: harness could not build the response");
            dev.last_outcome = format!("harness-build-panic:{}", p);
            return None;
        }
    };
    // reference: what the same call leaves in a 7609-byte buffer
    let ref_key = crate::prng::fnv(x.resp.to_json().compact().as_bytes());
    let cached = dev.refs.get(&ref_key).cloned();
    let reference: Vec<u8> = if let Some(r) = cached {
        r
    } else {
        let Some(b) = tx(dev, REF_CAP) else { return None };
        b.set_prior(1);
        match guard(|| {
            b.serialize(&resp);
        }) {
            Ok(()) => b.bytes().to_vec(),
            Err(p) => {
                log.event("respond: PANIC in reference buffer");
                return finding("panic", format!("serialising into a {}-byte buffer panicked: {}", REF_CAP, p));
            }
        }
    };
    dev.refs.insert(ref_key, reference.clone());
    // "complete" = status 0x00 followed by exactly one well-formed CBOR item (or nothing)
    if reference.first() != Some(&0x00) {
        log.event(&format!("respond ref len={} status={:02x?}", reference.len(), reference.first()));
        return finding("reference_status", format!("in a {}-byte buffer the message starts with {:02x?} instead of status 0x00 ({} bytes)", REF_CAP, reference.first(), reference.len()));
    }
    // "the whole CBOR body": a map with one entry per member the authenticator set (which keys and values
    // they carry is C02's business; that none is missing, and that there is a body at all, is this one's)
    let members = member_count(&resp);
    let entries = if reference.len() > 1 {
        match cbor::decode_one(&reference[1..]) {
            Ok((cbor::V::M(m), _)) => Some(m.len()),
            _ => None,
        }
    } else {
        Some(0)
    };
    if let Some(n) = entries {
        if n != members {
            log.event(&format!("respond ref len={} entries={} members={}", reference.len(), n, members));
            return finding(
                "incomplete_body",
                format!("the response has {} members set but the body written into a {}-byte buffer has {} entries ({} bytes: {})", members, REF_CAP, n, reference.len(), json::hex(&reference[..reference.len().min(32)])),
            );
        }
    }
    if reference.len() > 1 {
        if let Err(e) = cbor::decode_one(&reference[1..]) {
            log.event(&format!("respond ref len={} ill-formed", reference.len()));
            return finding(
                "incomplete_body",
                format!("in a {}-byte buffer the {}-byte body is not exactly one well-formed CBOR item: {:?}; message {}", REF_CAP, reference.len() - 1, e, json::hex(&reference[..reference.len().min(64)])),
            );
        }
    }
    let Some(b) = tx(dev, x.cap) else {
        dev.last_outcome = "harness-no-such-capacity".into();
        return None;
    };
    b.set_prior(x.prior);
    let got: Vec<u8> = match guard(|| {
        b.serialize(&resp);
    }) {
        Ok(()) => b.bytes().to_vec(),
        Err(p) => {
            log.event(&format!("respond cap={} prior={} -> PANIC", x.cap, x.prior));
            return finding("panic", format!("serialising into a buffer of capacity {} (prior state {}) panicked: {}", x.cap, x.prior, p));
        }
    };
    log.event(&format!("respond {} cap={} prior={} ref={} -> len={} h={:016x}", KIND_NAMES[x.resp.kind as usize % 10], x.cap, x.prior, reference.len(), got.len(), crate::prng::fnv(&got)));
    let fits = x.cap >= reference.len();
    // the body the encoder works on is the encoded CBOR; an empty map is collapsed afterwards,
    // so at capacity 1 a body-bearing response with nothing set may answer either way
    let empty_map_corner = has_body(x.resp.kind) && reference.len() == 1 && x.cap == 1;
    dev.last_outcome = format!(
        "{}:{}:{}",
        if fits { "fits" } else { "overflow" },
        reference.len() as i64 - x.cap as i64,
        if empty_map_corner { "corner" } else { "" }
    );
    if empty_map_corner {
        if got == [0x00] || got == [0x7f] {
            return None;
        }
        return finding("empty_map_corner", format!("capacity 1, empty-map body: expected [00] or [7f], got {}", json::hex(&got)));
    }
    if fits {
        if got != reference {
            let rule = if got == [0x7f] { "fits_but_error" } else { "fits_but_differs" };
            return finding(
                rule,
                format!(
                    "message of {} bytes fits capacity {} (prior state {}) but the buffer holds {} bytes: {}.. instead of {}..",
                    reference.len(),
                    x.cap,
                    x.prior,
                    got.len(),
                    json::hex(&got[..got.len().min(24)]),
                    json::hex(&reference[..reference.len().min(24)])
                ),
            );
        }
    } else if got != [0x7f] {
        return finding(
            "overflow_not_7f",
            format!(
                "message of {} bytes does not fit capacity {} (prior state {}): expected exactly [7f], buffer holds {} bytes: {}..",
                reference.len(),
                x.cap,
                x.prior,
                got.len(),
                json::hex(&got[..got.len().min(24)])
            ),
        );
    }
    None
}

// ------------------------------------------------------------------ workload

pub fn plan(tier: &str) -> u64 {
    match tier {
        "thorough" => 80_000,
        "selfcheck" => 20_000,
        _ => 1_000,
    }
}

fn max_p(kind: u8) -> [u32; 6] {
    match kind {
        0 => [4, 4, 8, 16, 0xffff, 0xffff],
        1 => [676, 77, 1024, 0, 0, 0],
        2 | 3 => [255, 676, 77, 64, 64, 1024],
        4 => [48, 0xffff, 32, 32, 0, 0],
        5 => [15, 256, 64, 255, 8, 2111],
        6 => [ctap_types::sizes::LARGE_BLOB_MAX_FRAGMENT_LENGTH as u32, 0, 0, 0, 0, 0],
        _ => [0; 6],
    }
}

/// Which parameter is a plain byte-string length that can be used to tune the total size.
fn tunable(kind: u8) -> Option<usize> {
    match kind {
        1 => Some(0),
        2 | 3 => Some(1),
        6 => Some(0),
        _ => None,
    }
}

pub fn random_spec(rng: &mut Rng, run: u64) -> RespSpec {
    // every kind regularly; the first runs are fixed corner responses
    let kind = (run % 10) as u8;
    let nb = mask_bits(kind);
    let mp = max_p(kind);
    let style = (run / 10) % 6;
    let mask = match style {
        0 => 0,
        1 => (1u64 << nb) - 1,
        2 if nb > 0 => 1u64 << rng.below(nb as u64),
        3 if nb > 1 => (1u64 << rng.below(nb as u64)) | (1u64 << rng.below(nb as u64)),
        _ => rng.next() & ((1u64 << nb).wrapping_sub(1)),
    };
    let mut p = [0u32; 6];
    // lengths at which a CBOR head changes width, and their neighbours
    let thresholds: [u32; 12] = [0, 1, 22, 23, 24, 25, 254, 255, 256, 257, 65535, 65536];
    for i in 0..6 {
        p[i] = match (style, rng.below(6)) {
            (0, _) => 0,
            (1, _) => mp[i],
            (_, 0) => mp[i],
            (_, 1) => mp[i].saturating_sub(1),
            (_, 2) | (_, 3) => (*rng.pick(&thresholds)).min(mp[i]),
            _ => {
                if mp[i] == 0 {
                    0
                } else {
                    rng.below(mp[i] as u64 + 1) as u32
                }
            }
        };
    }
    RespSpec { kind, mask, p, fill: rng.next() }
}

fn reference_len(spec: &RespSpec) -> Option<usize> {
    let resp = guard(|| build(spec)).ok()?;
    let mut b = new_tx(REF_CAP)?;
    guard(|| b.serialize(&resp)).ok()?;
    Some(b.bytes().len())
}

pub fn gen(seed: u64, run: u64, tier: &str) -> Vec<Step> {
    let mut rng = Rng::new(seed, run, 17);
    let mut spec = random_spec(&mut rng, run);
    // tune large bodies so that their fit/overflow frontier lands on an instantiated capacity
    let mut size = reference_len(&spec).unwrap_or(1);
    if size > 1534 {
        if let Some(ti) = tunable(spec.kind) {
            let targets = [2048usize, 3072, 4096];
            let target = targets.iter().copied().filter(|t| *t >= size.saturating_sub(spec.p[ti] as usize)).min_by_key(|t| (*t as i64 - size as i64).abs()).unwrap_or(2048);
            for _ in 0..4 {
                let delta = target as i64 - size as i64;
                if delta == 0 {
                    break;
                }
                let np = spec.p[ti] as i64 + delta;
                if np < 0 || np > max_p(spec.kind)[ti] as i64 {
                    break;
                }
                spec.p[ti] = np as u32;
                size = reference_len(&spec).unwrap_or(size);
            }
        }
    }
    let mut caps: Vec<usize> = vec![1, 2, 3, 64, 256, 1024, 3072, 7609];
    let dense_to = (size + 2).min(1536);
    let dense = tier != "selfcheck";
    if dense {
        caps.extend(1..=dense_to);
    } else {
        caps.extend((1..=dense_to).step_by(37));
    }
    for d in 0..=4usize {
        let c = (size + d).saturating_sub(2);
        if c >= 1 {
            caps.push(c);
        }
    }
    caps.sort();
    caps.dedup();
    caps.retain(|c| TX_CAPS.binary_search(c).is_ok());
    let mut steps = Vec::new();
    // the order of capacities and prior states is part of the schedule: shuffle it per run
    for i in (1..caps.len()).rev() {
        let j = rng.usize_below(i + 1);
        caps.swap(i, j);
    }
    // a second, different response travels through the same buffers in between, so that "what the
    // previous message left" is a different (shorter or longer) message, not only this one or 0x7F
    // (one time in three it is another response of the same kind with other members and sizes)
    let other_kind = if rng.chance(1, 3) { run + 10 * (1 + rng.below(5)) } else { run.wrapping_mul(7).wrapping_add(3 + rng.below(10)) };
    let other = random_spec(&mut rng, other_kind);
    for c in caps {
        let near = (c as i64 - size as i64).abs() <= 2 || c <= 3;
        let priors: &[u8] = if near { &[0, 1, 2, 3] } else { &[0, 3] };
        for pr in priors {
            if *pr == 0 && rng.chance(1, 3) {
                steps.push(Step::Respond(RespondSpec { resp: other.clone(), cap: c, prior: 0 }));
            }
            steps.push(Step::Respond(RespondSpec { resp: spec.clone(), cap: c, prior: *pr }));
        }
    }
    steps
}

pub fn account(step: &Step, outcome: &str, stats: &mut Stats) {
    if let Step::Respond(x) = step {
        stats.evaluations += 1;
        stats.real_calls += 2;
        stats.fault("cap");
        let mut it = outcome.split(':');
        let fit = it.next().unwrap_or("");
        let delta: i64 = it.next().and_then(|d| d.parse().ok()).unwrap_or(0);
        let corner = it.next() == Some("corner");
        let size = x.cap as i64 + delta;
        match x.prior {
            0 => stats.probe("prior_previous_message"),
            1 => stats.probe("prior_empty"),
            2 => stats.probe("prior_half_sentinel"),
            _ => stats.probe("prior_full_sentinel"),
        }
        if x.prior != 1 {
            stats.fault("stale");
        }
        if delta == 0 {
            stats.probe("fits_exactly");
        }
        if delta == 1 {
            stats.probe("one_byte_short");
        }
        if fit == "overflow" && x.cap > 3 && delta > 1 {
            stats.probe("sink_full_inside_body");
        }
        if corner {
            stats.probe("empty_map_collapse_at_cap_1");
        }
        if size > 1536 {
            stats.probe("body_over_1536");
        }
        let d = delta.clamp(-3, 3);
        stats.distinct(&[KIND_NAMES[x.resp.kind as usize % 10], &format!("{:x}", x.resp.mask), &size.to_string(), &d.to_string()]);
        if stats.evaluations % 20011 == 1 {
            let mut j = x.to_json();
            j.set("message_size", json::i(size));
            j.set("outcome", s(outcome));
            stats.sample(j);
        }
    }
}
