//! Adaptors around the real code under test (`ctap-types` and the locked crates it
//! is built on). Everything in this file calls real code; nothing here decides a verdict.

use crate::guard::guard;
use crate::prng::fnv;
use ctap_types::ctap2;

/// Outcome of offering a delivered message to the real request decoder.
#[derive(Clone, Debug, PartialEq)]
pub enum Decoded {
    /// variant name and a hash of the `Debug` rendering of the decoded request
    Ok(&'static str, u64),
    Err(u8),
    /// the call unwound
    Panic(String),
}

impl Decoded {
    pub fn short(&self) -> String {
        match self {
            Decoded::Ok(v, h) => format!("Ok({},{:016x})", v, h),
            Decoded::Err(e) => format!("Err(0x{:02x})", e),
            Decoded::Panic(m) => format!("PANIC({})", m),
        }
    }
}

pub fn variant_name(r: &ctap2::Request) -> &'static str {
    match r {
        ctap2::Request::MakeCredential(_) => "MakeCredential",
        ctap2::Request::GetAssertion(_) => "GetAssertion",
        ctap2::Request::GetNextAssertion => "GetNextAssertion",
        ctap2::Request::GetInfo => "GetInfo",
        ctap2::Request::ClientPin(_) => "ClientPin",
        ctap2::Request::Reset => "Reset",
        ctap2::Request::CredentialManagement(_) => "CredentialManagement",
        ctap2::Request::Selection => "Selection",
        ctap2::Request::LargeBlobs(_) => "LargeBlobs",
        ctap2::Request::Vendor(_) => "Vendor",
        #[allow(unreachable_patterns)]
        _ => "Other",
    }
}

fn dbg_hash<T: core::fmt::Debug>(t: &T) -> u64 {
    use std::fmt::Write;
    struct H(crate::prng::Fnv);
    impl Write for H {
        fn write_str(&mut self, s: &str) -> std::fmt::Result {
            self.0.write(s.as_bytes());
            Ok(())
        }
    }
    let mut h = H(crate::prng::Fnv::new());
    let _ = write!(h, "{:?}", t);
    h.0 .0
}

/// Decode once. `deep` additionally hashes the Debug rendering of the value.
pub fn decode_request(bytes: &[u8], deep: bool) -> Decoded {
    match guard(|| match ctap2::Request::deserialize(bytes) {
        Ok(r) => Decoded::Ok(variant_name(&r), if deep { dbg_hash(&r) } else { 0 }),
        Err(e) => Decoded::Err(e as u8),
    }) {
        Ok(d) => d,
        Err(p) => Decoded::Panic(p),
    }
}

/// The C04 monitors for one delivered message sitting in the device's receive buffer:
/// decode twice from the buffer, and once more from a copy at a different address with a
/// different stale tail, and compare the three `Result`s with the crate's own `PartialEq`.
/// Returns the outcome and, if the results differ, a description.
pub fn decode_monitored(rx: &[u8], len: usize, scratch: &mut Vec<u8>, pad: usize, tail_byte: u8) -> (Decoded, Option<String>) {
    let bytes = &rx[..len];
    scratch.clear();
    scratch.resize(pad, 0xEE);
    scratch.extend_from_slice(bytes);
    scratch.resize(pad + len + 64, tail_byte);
    let other = &scratch[pad..pad + len];
    let r = guard(|| {
        let a = ctap2::Request::deserialize(bytes);
        let b = ctap2::Request::deserialize(bytes);
        let c = ctap2::Request::deserialize(other);
        let mut diff = None;
        if a != b {
            diff = Some(format!("two decodes of the same buffer differ: {:?} vs {:?}", short_res(&a), short_res(&b)));
        } else if a != c {
            diff = Some(format!(
                "decode depends on address / bytes after the slice: {:?} vs {:?}",
                short_res(&a),
                short_res(&c)
            ));
        }
        let d = match &a {
            Ok(r) => Decoded::Ok(variant_name(r), dbg_hash(r)),
            Err(e) => Decoded::Err(*e as u8),
        };
        (d, diff)
    });
    match r {
        Ok(x) => x,
        Err(p) => (Decoded::Panic(p), None),
    }
}

fn short_res(r: &ctap2::Result<ctap2::Request>) -> String {
    match r {
        Ok(v) => {
            let s = format!("{:?}", v);
            if s.len() > 160 {
                format!("Ok({}..)", &s[..160])
            } else {
                format!("Ok({})", s)
            }
        }
        Err(e) => format!("Err({:?})", e),
    }
}

// ------------------------------------------------------------------ nested public decodable types

macro_rules! nested_types {
    ($( $(#[$m:meta])* $name:literal => $ty:ty ),* $(,)?) => {
        /// Names of the public decodable types offered the delivered payload.
        pub fn nested_type_names() -> Vec<&'static str> {
            let mut v = Vec::new();
            $( $(#[$m])* { v.push($name); } )*
            v
        }
        /// Decode `payload` as the named type: Ok(Some(hash)) / Ok(None) on decode error / Err(panic).
        pub fn decode_nested(name: &str, payload: &[u8]) -> Result<Option<u64>, String> {
            $( $(#[$m])* {
                if name == $name {
                    return guard(|| {
                        let a: Result<$ty, _> = cbor_smol::cbor_deserialize(payload);
                        let b: Result<$ty, _> = cbor_smol::cbor_deserialize(payload);
                        match (a, b) {
                            (Ok(x), Ok(y)) => {
                                let (hx, hy) = (dbg_hash(&x), dbg_hash(&y));
                                if hx != hy { Some(u64::MAX) } else { Some(hx) }
                            }
                            (Err(e1), Err(e2)) => { if e1 != e2 { Some(u64::MAX) } else { None } }
                            _ => Some(u64::MAX),
                        }
                    });
                }
            } )*
            Err(format!("harness: unknown nested type {}", name))
        }
    };
}

use ctap_types::webauthn as wa;

nested_types! {
    "RpEntity" => wa::PublicKeyCredentialRpEntity,
    "UserEntity" => wa::PublicKeyCredentialUserEntity,
    "Descriptor" => wa::PublicKeyCredentialDescriptor,
    "DescriptorRef" => wa::PublicKeyCredentialDescriptorRef,
    "Parameters" => wa::PublicKeyCredentialParameters,
    "FilteredParameters" => wa::FilteredPublicKeyCredentialParameters,
    "AuthenticatorOptions" => ctap2::AuthenticatorOptions,
    "McExtensions" => ctap2::make_credential::Extensions,
    "GaExtensionsInput" => ctap2::get_assertion::ExtensionsInput,
    "GaExtensionsOutput" => ctap2::get_assertion::ExtensionsOutput,
    "GaUnsignedExtensionOutputs" => ctap2::get_assertion::UnsignedExtensionOutputs,
    "HmacSecretInput" => ctap2::get_assertion::HmacSecretInput,
    "AttestationFormatsPreference" => ctap2::AttestationFormatsPreference,
    "AttestationStatementFormat" => ctap2::AttestationStatementFormat,
    "GetInfoResponse" => ctap2::get_info::Response,
    "CtapOptions" => ctap2::get_info::CtapOptions,
    "Version" => ctap2::get_info::Version,
    "Extension" => ctap2::get_info::Extension,
    "Transport" => ctap2::get_info::Transport,
    #[cfg(feature = "get-info-full")]
    "Certifications" => ctap2::get_info::Certifications,
    "McRequest" => ctap2::make_credential::Request,
    "GaRequest" => ctap2::get_assertion::Request,
    "ClientPinRequest" => ctap2::client_pin::Request,
    "ClientPinResponse" => ctap2::client_pin::Response,
    "PinV1Subcommand" => ctap2::client_pin::PinV1Subcommand,
    "CredMgmtRequest" => ctap2::credential_management::Request,
    "CredMgmtParams" => ctap2::credential_management::SubcommandParameters,
    "CredMgmtSubcommand" => ctap2::credential_management::Subcommand,
    "CredProtectPolicy" => ctap2::credential_management::CredentialProtectionPolicy,
    "LargeBlobsRequest" => ctap2::large_blobs::Request,
    "LargeBlobsResponse" => ctap2::large_blobs::Response,
    "CosePublicKey" => cosey::PublicKey,
    "CoseP256" => cosey::P256PublicKey,
    "CoseEcdh" => cosey::EcdhEsHkdf256PublicKey,
    "CoseEd25519" => cosey::Ed25519PublicKey,
}

/// The documented lossy text members of a decoded request: (member, decoded value if present).
/// None if the message is not accepted or carries no such entity. Err on panic.
pub fn lossy_members(bytes: &[u8]) -> Result<Option<Vec<(&'static str, Option<Vec<u8>>)>>, String> {
    guard(|| {
        let req = ctap2::Request::deserialize(bytes).ok()?;
        let mut out = Vec::new();
        let mut user = |u: &wa::PublicKeyCredentialUserEntity, out: &mut Vec<(&'static str, Option<Vec<u8>>)>| {
            out.push(("user.name", u.name.as_ref().map(|s| s.as_bytes().to_vec())));
            out.push(("user.displayName", u.display_name.as_ref().map(|s| s.as_bytes().to_vec())));
            out.push(("user.icon", u.icon.as_ref().map(|s| s.as_bytes().to_vec())));
        };
        match &req {
            ctap2::Request::MakeCredential(m) => {
                out.push(("rp.name", m.rp.name.as_ref().map(|s| s.as_bytes().to_vec())));
                user(&m.user, &mut out);
            }
            ctap2::Request::CredentialManagement(c) => {
                if let Some(u) = c.sub_command_params.as_ref().and_then(|p| p.user.as_ref()) {
                    user(u, &mut out);
                }
            }
            _ => {}
        }
        Some(out)
    })
}

pub fn hash_bytes(b: &[u8]) -> u64 {
    fnv(b)
}
