//! Shared bookkeeping: counters, violations, worker <-> parent result files.

use crate::json::{self, obj, s, J};
use std::collections::{BTreeMap, BTreeSet};

#[derive(Clone, Debug)]
pub struct Violation {
    pub property: String,
    /// the oracle rule that fired (minimisation keeps property + rule fixed)
    pub rule: String,
    pub detail: String,
    pub run: u64,
    /// index of the exchange at which the rule fired
    pub at_step: usize,
    /// the trace: every exchange of the run up to and including the failing one
    pub steps: Vec<J>,
    /// event-log hash of the failing execution
    pub log_hash: u64,
    /// true when the worker died on a signal (abort, stack overflow) instead of returning
    pub aborted: bool,
}

impl Violation {
    pub fn to_json(&self) -> J {
        obj(vec![
            ("property", s(&self.property)),
            ("rule", s(&self.rule)),
            ("detail", s(&self.detail)),
            ("run", J::Int(self.run as i64)),
            ("at_step", J::Int(self.at_step as i64)),
            ("aborted", J::Bool(self.aborted)),
            ("log_hash", s(format!("{:016x}", self.log_hash))),
            ("steps", J::Arr(self.steps.clone())),
        ])
    }
    pub fn from_json(j: &J) -> Option<Violation> {
        Some(Violation {
            property: j.get("property")?.str()?.to_string(),
            rule: j.get("rule")?.str()?.to_string(),
            detail: j.get("detail")?.str()?.to_string(),
            run: j.get("run")?.int()? as u64,
            at_step: j.get("at_step")?.int()? as usize,
            aborted: j.get("aborted").and_then(|b| b.bool()).unwrap_or(false),
            log_hash: u64::from_str_radix(j.get("log_hash")?.str()?, 16).ok()?,
            steps: j.get("steps")?.arr()?.to_vec(),
        })
    }
}

#[derive(Clone, Debug, Default)]
pub struct Stats {
    /// cases generated / executions run
    pub evaluations: u64,
    pub runs: u64,
    pub exchanges: u64,
    /// calls into real code
    pub real_calls: u64,
    /// faults that actually fired, per kind
    pub faults: BTreeMap<String, u64>,
    /// "this rare condition was hit" probes
    pub probes: BTreeMap<String, u64>,
    /// outcome tallies (e.g. status codes seen)
    pub outcomes: BTreeMap<String, u64>,
    /// distinct non-trivial cases by the stated rule (hashes of the tuple)
    pub distinct: BTreeSet<u64>,
    /// distinct event-log hashes (one per run)
    pub logs: BTreeSet<u64>,
    pub samples: Vec<J>,
    pub skipped_seeds: u64,
    pub used_seeds: u64,
}

impl Stats {
    pub fn fault(&mut self, k: &str) {
        *self.faults.entry(k.to_string()).or_insert(0) += 1;
    }
    pub fn probe(&mut self, k: &str) {
        *self.probes.entry(k.to_string()).or_insert(0) += 1;
    }
    pub fn probe_n(&mut self, k: &str, n: u64) {
        *self.probes.entry(k.to_string()).or_insert(0) += n;
    }
    pub fn outcome(&mut self, k: &str) {
        *self.outcomes.entry(k.to_string()).or_insert(0) += 1;
    }
    pub fn distinct(&mut self, parts: &[&str]) {
        let mut h = crate::prng::Fnv::new();
        for p in parts {
            h.write_str(p);
        }
        self.distinct.insert(h.0);
    }
    pub fn sample(&mut self, j: J) {
        if self.samples.len() < 6 {
            self.samples.push(j);
        }
    }

    pub fn merge(&mut self, o: &Stats) {
        self.evaluations += o.evaluations;
        self.runs += o.runs;
        self.exchanges += o.exchanges;
        self.real_calls += o.real_calls;
        self.skipped_seeds += o.skipped_seeds;
        self.used_seeds += o.used_seeds;
        for (k, v) in &o.faults {
            *self.faults.entry(k.clone()).or_insert(0) += v;
        }
        for (k, v) in &o.probes {
            *self.probes.entry(k.clone()).or_insert(0) += v;
        }
        for (k, v) in &o.outcomes {
            *self.outcomes.entry(k.clone()).or_insert(0) += v;
        }
        self.distinct.extend(o.distinct.iter().copied());
        self.logs.extend(o.logs.iter().copied());
        for sm in &o.samples {
            if self.samples.len() < 6 {
                self.samples.push(sm.clone());
            }
        }
    }

    fn set_to_hex(set: &BTreeSet<u64>) -> String {
        let mut b = Vec::with_capacity(set.len() * 8);
        for v in set {
            b.extend_from_slice(&v.to_le_bytes());
        }
        json::hex(&b)
    }
    fn set_from_hex(h: &str) -> BTreeSet<u64> {
        let b = json::unhex(h).unwrap_or_default();
        b.chunks_exact(8).map(|c| u64::from_le_bytes(c.try_into().unwrap())).collect()
    }

    pub fn to_json(&self) -> J {
        obj(vec![
            ("evaluations", J::Int(self.evaluations as i64)),
            ("runs", J::Int(self.runs as i64)),
            ("exchanges", J::Int(self.exchanges as i64)),
            ("real_calls", J::Int(self.real_calls as i64)),
            ("skipped_seeds", J::Int(self.skipped_seeds as i64)),
            ("used_seeds", J::Int(self.used_seeds as i64)),
            ("faults", json::counts(&self.faults)),
            ("probes", json::counts(&self.probes)),
            ("outcomes", json::counts(&self.outcomes)),
            ("distinct", s(Self::set_to_hex(&self.distinct))),
            ("logs", s(Self::set_to_hex(&self.logs))),
            ("samples", J::Arr(self.samples.clone())),
        ])
    }

    pub fn from_json(j: &J) -> Option<Stats> {
        let cm = |k: &str| -> BTreeMap<String, u64> {
            match j.get(k) {
                Some(J::Obj(o)) => o.iter().map(|(k, v)| (k.clone(), v.int().unwrap_or(0) as u64)).collect(),
                _ => BTreeMap::new(),
            }
        };
        Some(Stats {
            evaluations: j.get("evaluations")?.int()? as u64,
            runs: j.get("runs")?.int()? as u64,
            exchanges: j.get("exchanges")?.int()? as u64,
            real_calls: j.get("real_calls")?.int()? as u64,
            skipped_seeds: j.get("skipped_seeds")?.int()? as u64,
            used_seeds: j.get("used_seeds")?.int()? as u64,
            faults: cm("faults"),
            probes: cm("probes"),
            outcomes: cm("outcomes"),
            distinct: Self::set_from_hex(j.get("distinct")?.str()?),
            logs: Self::set_from_hex(j.get("logs")?.str()?),
            samples: j.get("samples")?.arr()?.to_vec(),
        })
    }
}

/// What a worker hands back to the parent.
#[derive(Clone, Debug, Default)]
pub struct WorkerResult {
    pub stats: Stats,
    pub violations: Vec<Violation>,
    /// harness errors (never reported as violations)
    pub errors: Vec<String>,
}

impl WorkerResult {
    pub fn to_json(&self) -> J {
        obj(vec![
            ("stats", self.stats.to_json()),
            ("violations", J::Arr(self.violations.iter().map(|v| v.to_json()).collect())),
            ("errors", J::Arr(self.errors.iter().map(|e| s(e.clone())).collect())),
        ])
    }
    pub fn from_json(j: &J) -> Option<WorkerResult> {
        Some(WorkerResult {
            stats: Stats::from_json(j.get("stats")?)?,
            violations: j.get("violations")?.arr()?.iter().filter_map(Violation::from_json).collect(),
            errors: j.get("errors")?.arr()?.iter().filter_map(|e| e.str().map(|x| x.to_string())).collect(),
        })
    }
}

/// Feature set this binary was built with (mirrors the crate's wire-affecting features).
pub fn feature_set() -> String {
    let mut f: Vec<&str> = Vec::new();
    if cfg!(feature = "get-info-full") {
        f.push("get-info-full");
    }
    if cfg!(feature = "large-blobs") {
        f.push("large-blobs");
    }
    if cfg!(feature = "third-party-payment") {
        f.push("third-party-payment");
    }
    if cfg!(feature = "std") {
        f.push("std");
    }
    if cfg!(feature = "arbitrary") {
        f.push("arbitrary");
    }
    if f.is_empty() {
        "default".into()
    } else {
        f.join(",")
    }
}
