//! Fault catalogue: what the link and a buggy/hostile host may do to a message.
//!
//! * `single_faults` enumerates every single fault at every position of one
//!   well-formed message, each with the status the property assigns to it (C05).
//! * `LinkFault` are byte-level faults of the transport (C04, C05 sequences).
//! * `structure_fault` draws one tree-level fault aimed at capacity / range /
//!   nesting boundaries (C04).

use crate::cbor::{self, enc, get, head_of, int, min_width, replace, t, Path, Step, V};
use crate::prng::Rng;
use crate::schema::{self, GenMode, Lossy, MapSchema, Site, Ty};

pub const ST_INVALID_COMMAND: u8 = 0x01;
pub const ST_INVALID_CBOR: u8 = 0x12;
pub const ST_MISSING_PARAMETER: u8 = 0x14;

pub const MAX_MSG: usize = 7609;

#[derive(Clone, Debug, PartialEq)]
pub enum Expect {
    /// the fault must be rejected, with exactly this status
    MustReject(u8),
    /// where the limit lies is another property's business: if rejected, then with this status
    IfRejected(u8),
    /// rejected => status in {0x01, 0x12, 0x14}; `lacks_required` => Ok is a violation
    StatusSet { lacks_required: bool },
    /// must decode successfully (parameter-less commands with any trailing bytes)
    MustAccept,
}

#[derive(Clone, Debug)]
pub struct Case {
    pub class: &'static str,
    /// schema name of the member the fault was applied to (empty for position-only faults)
    pub site: String,
    pub desc: String,
    pub delivered: Vec<u8>,
    pub expect: Expect,
}

fn msg(cmd: u8, root: &V) -> Vec<u8> {
    let mut out = vec![cmd];
    cbor::enc_into(&mut out, root);
    out
}

/// Every node of a tree (keys and values), depth first.
pub fn all_nodes(root: &V) -> Vec<Path> {
    fn rec(v: &V, p: &mut Path, out: &mut Vec<Path>) {
        out.push(p.clone());
        match v {
            V::A(a) => {
                for (i, x) in a.iter().enumerate() {
                    p.push(Step::Idx(i));
                    rec(x, p, out);
                    p.pop();
                }
            }
            V::M(m) => {
                for (i, (k, x)) in m.iter().enumerate() {
                    p.push(Step::Key(i));
                    rec(k, p, out);
                    p.pop();
                    p.push(Step::Val(i));
                    rec(x, p, out);
                    p.pop();
                }
            }
            _ => {}
        }
    }
    let mut out = Vec::new();
    rec(root, &mut vec![], &mut out);
    out
}

fn path_str(p: &Path) -> String {
    let mut s = String::from("$");
    for st in p {
        match st {
            Step::Idx(i) => s.push_str(&format!("[{}]", i)),
            Step::Val(i) => s.push_str(&format!(".v{}", i)),
            Step::Key(i) => s.push_str(&format!(".k{}", i)),
        }
    }
    s
}

fn own_kind(ty: &Ty) -> &'static str {
    match ty {
        Ty::Bytes { .. } => "bytes",
        Ty::Text { .. } => "text",
        Ty::UInt { .. } | Ty::Enum(_) => "unsigned",
        Ty::Int32 => "int",
        Ty::Bool => "bool",
        Ty::Array { .. } => "array",
        Ty::Map(_) | Ty::CoseEcdh => "map",
    }
}

fn other_types(ty: &Ty) -> Vec<(&'static str, V)> {
    let all: Vec<(&'static str, V)> = vec![
        ("unsigned", V::U(1)),
        ("negative", V::N(0)),
        ("bytes", V::B(vec![1])),
        ("text", t("a")),
        ("array", V::A(vec![])),
        ("map", V::M(vec![])),
        ("bool", V::Bool(true)),
    ];
    let own = own_kind(ty);
    all.into_iter()
        .filter(|(k, _)| {
            if *k == own {
                return false;
            }
            // sign changes of signed members are not faults
            if own == "int" && (*k == "unsigned" || *k == "negative") {
                return false;
            }
            true
        })
        .collect()
}

fn remove_entry(root: &V, parent: &Path, idx: usize) -> Option<V> {
    replace(root, parent, |old| match old {
        V::M(mut m) => {
            m.remove(idx);
            V::M(m)
        }
        o => o,
    })
}

/// Duplicate entry `idx`. `variant`: 0 = exact copy; 1 = the FIRST occurrence holds null and the second the
/// original value; 2 = the second occurrence holds a different value of the same kind.
fn dup_entry(root: &V, parent: &Path, idx: usize, at_end: bool, variant: u8) -> Option<V> {
    replace(root, parent, |old| match old {
        V::M(mut m) => {
            let mut e = m[idx].clone();
            match variant {
                1 => m[idx].1 = V::Null,
                2 => {
                    e.1 = match e.1 {
                        V::Bool(b) => V::Bool(!b),
                        V::U(n) => V::U(n ^ 1),
                        V::N(n) => V::N(n ^ 1),
                        V::B(mut b) => {
                            b.push(0);
                            V::B(b)
                        }
                        V::T(mut b) => {
                            b.push(b'x');
                            V::T(b)
                        }
                        other => other,
                    }
                }
                _ => {}
            }
            if at_end {
                m.push(e);
            } else {
                m.insert(idx + 1, e);
            }
            V::M(m)
        }
        o => o,
    })
}

/// Value of the same kind, one past the member's bound (None if the member has no bound that is a fault).
fn one_past_bound(site: &Site, rng: &mut Rng) -> Vec<(String, V)> {
    let mut out = Vec::new();
    match &site.ty {
        Ty::Bytes { max: Some(c), exact, .. } => {
            out.push((format!("{} bytes (bound {})", c + 1, c), V::B(rng.bytes(c + 1))));
            if exact.is_some() && *c > 0 {
                out.push((format!("{} bytes (exactly {} required)", c - 1, c), V::B(rng.bytes(c - 1))));
            }
        }
        Ty::Text { max: Some(c), lossy: Lossy::No, .. } => {
            out.push((format!("{} bytes of text (bound {})", c + 1, c), V::T(schema::utf8_text(rng, c + 1))));
        }
        Ty::Array { elem, max: Some(c), filtered: false } => {
            let a: Vec<V> = (0..c + 1).map(|_| schema::gen_ty(elem, rng, GenMode::Max)).collect();
            out.push((format!("{} entries (bound {})", c + 1, c), V::A(a)));
        }
        _ => {}
    }
    out
}

fn past_int_range(site: &Site) -> Vec<(String, V)> {
    match &site.ty {
        Ty::UInt { bits: 8 } => vec![("256 in an 8-bit member".into(), V::U(256))],
        Ty::UInt { bits: _ } => vec![
            ("2^32 in a 32-bit member".into(), V::U(1 << 32)),
            ("2^64-1 in a 32-bit member".into(), V::U(u64::MAX)),
        ],
        Ty::Int32 => vec![
            ("2^31 in a signed 32-bit member".into(), V::U(1 << 31)),
            ("-2^31-1 in a signed 32-bit member".into(), V::N(1 << 31)),
            ("-2^63 in a signed 32-bit member".into(), V::N((1 << 63) - 1)),
            ("2^63-1 in a signed 32-bit member".into(), V::U((1 << 63) - 1)),
            ("-2^64 in a signed 32-bit member".into(), V::N(u64::MAX)),
            ("2^64-1 in a signed 32-bit member".into(), V::U(u64::MAX)),
        ],
        Ty::Enum(vals) => {
            let mut out = Vec::new();
            for c in (0u64..=12).chain([255, 256, 65536]) {
                if !vals.contains(&c) {
                    out.push((format!("unassigned sub-command {}", c), V::U(c)));
                }
            }
            out
        }
        _ => vec![],
    }
}

/// Enumerate every single fault at every position of the well-formed message (cmd, root).
/// `rng` only fills the content of grown members.
pub fn single_faults(cmd: u8, schema: &MapSchema, root: &V, rng: &mut Rng) -> Vec<Case> {
    let mut cases = Vec::new();
    let good = msg(cmd, root);

    // empty message and truncation at every offset
    for k in 0..good.len() {
        cases.push(Case {
            class: if k == 0 { "empty" } else { "truncate" },
            site: String::new(),
            desc: format!("truncate({}) of {} bytes", k, good.len()),
            delivered: good[..k].to_vec(),
            expect: Expect::MustReject(ST_INVALID_CBOR),
        });
    }

    let sites = schema::walk(schema, root);

    // removal of each required member (top level and nested)
    for s in &sites {
        if let (true, Some((parent, idx))) = (s.required, &s.parent) {
            if let Some(r) = remove_entry(root, parent, *idx) {
                cases.push(Case {
                    class: "remove_required",
                    site: s.name.clone(),
                    desc: format!("remove required member {} at {}", s.name, path_str(&s.path)),
                    delivered: msg(cmd, &r),
                    expect: Expect::MustReject(ST_MISSING_PARAMETER),
                });
            }
        }
    }

    // duplicate each key of each map (adjacent and at the end), count fixed up
    for mp in schema::map_nodes(schema, root) {
        if let Some(V::M(entries)) = get(root, &mp) {
            for i in 0..entries.len() {
                for at_end in [false, true] {
                    if at_end && i + 1 == entries.len() {
                        continue; // same message as the adjacent duplicate
                    }
                    for variant in 0..3u8 {
                        if variant == 2 && !matches!(entries[i].1, V::Bool(_) | V::U(_) | V::N(_) | V::B(_) | V::T(_)) {
                            continue;
                        }
                        if let Some(r) = dup_entry(root, &mp, i, at_end, variant) {
                            cases.push(Case {
                                class: "dup_key",
                                site: format!("{}#{}", path_str(&mp), cbor::show(&entries[i].0)),
                                desc: format!(
                                    "duplicate key {} of map {} ({}, {})",
                                    cbor::show(&entries[i].0),
                                    path_str(&mp),
                                    if at_end { "at end" } else { "adjacent" },
                                    ["same value twice", "first occurrence null", "second occurrence with another value"][variant as usize]
                                ),
                                delivered: msg(cmd, &r),
                                expect: Expect::MustReject(ST_INVALID_CBOR),
                            });
                        }
                    }
                }
            }
        }
    }

    // every head of every node: non-minimal widths, indefinite length, reserved additional information
    for p in all_nodes(root) {
        let node = get(root, &p).unwrap();
        if let Some((major, arg)) = head_of(node) {
            let first_wider = match min_width(arg) {
                None => 0,
                Some(k) => k + 1,
            };
            for k in first_wider..=3 {
                if major == 7 && k > 0 {
                    continue; // 0xf9.. are floats, not wider simple values
                }
                let r = replace(root, &p, |old| V::Wide(Box::new(old), k)).unwrap();
                cases.push(Case {
                    class: "non_minimal",
                    site: path_str(&p),
                    desc: format!("head of {} re-encoded in {} extra bytes", path_str(&p), 1u32 << k),
                    delivered: msg(cmd, &r),
                    expect: Expect::MustReject(ST_INVALID_CBOR),
                });
            }
            if (2..=5).contains(&major) {
                let r = replace(root, &p, |old| V::Indef(Box::new(old))).unwrap();
                cases.push(Case {
                    class: "indefinite",
                    site: path_str(&p),
                    desc: format!("{} made indefinite-length", path_str(&p)),
                    delivered: msg(cmd, &r),
                    expect: Expect::MustReject(ST_INVALID_CBOR),
                });
            }
            for ai in [28u8, 29, 30] {
                let r = replace(root, &p, |_| V::Head(major, ai)).unwrap();
                cases.push(Case {
                    class: "reserved_ai",
                    site: path_str(&p),
                    desc: format!("head of {} with reserved additional information {}", path_str(&p), ai),
                    delivered: msg(cmd, &r),
                    expect: Expect::MustReject(ST_INVALID_CBOR),
                });
            }
        }
    }

    // wrong data type for the parameter map itself
    for (kind, v) in [
        ("unsigned", V::U(1)),
        ("negative", V::N(0)),
        ("bytes", V::B(vec![1])),
        ("text", t("a")),
        ("array", V::A(vec![])),
        ("bool", V::Bool(true)),
    ] {
        cases.push(Case {
            class: "wrong_type",
            site: "(parameter map)".into(),
            desc: format!("parameter map replaced by {}", kind),
            delivered: msg(cmd, &v),
            expect: Expect::MustReject(ST_INVALID_CBOR),
        });
    }

    for s in &sites {
        // every member value replaced by a value of every other data type
        for (kind, v) in other_types(&s.ty) {
            let r = replace(root, &s.path, |_| v.clone()).unwrap();
            cases.push(Case {
                class: "wrong_type",
                site: s.name.clone(),
                desc: format!("{} ({}) replaced by {}", s.name, own_kind(&s.ty), kind),
                delivered: msg(cmd, &r),
                expect: Expect::MustReject(ST_INVALID_CBOR),
            });
        }
        // the same content in the neighbouring representation (what a careless encoder does): a byte string as an
        // array of small integers, a text string as a byte string, a byte string as text
        let same_content: Vec<(&'static str, V)> = match get(root, &s.path) {
            Some(V::B(b)) => {
                let mut v = vec![("an array of its bytes as integers", V::A(b.iter().map(|x| V::U(*x as u64)).collect()))];
                if std::str::from_utf8(b).is_ok() {
                    v.push(("a text string with the same bytes", V::T(b.clone())));
                }
                v
            }
            Some(V::T(b)) => vec![("a byte string with the same bytes", V::B(b.clone())), ("an array of its bytes as integers", V::A(b.iter().map(|x| V::U(*x as u64)).collect()))],
            _ => vec![],
        };
        for (kind, v) in same_content {
            let r = replace(root, &s.path, |_| v.clone()).unwrap();
            cases.push(Case {
                class: "wrong_type",
                site: s.name.clone(),
                desc: format!("{} ({}) replaced by {}", s.name, own_kind(&s.ty), kind),
                delivered: msg(cmd, &r),
                expect: Expect::MustReject(ST_INVALID_CBOR),
            });
        }
        // ill-formed UTF-8 in every text member
        if let Ty::Text { .. } = s.ty {
            for bad in [vec![0xffu8], vec![0xc3, 0x28], vec![0xe2, 0x82], vec![0xed, 0xa0, 0x80]] {
                let r = replace(root, &s.path, |old| match old {
                    V::T(mut b) => {
                        b.extend_from_slice(&bad);
                        V::T(b)
                    }
                    o => o,
                })
                .unwrap();
                cases.push(Case {
                    class: "bad_utf8",
                    site: s.name.clone(),
                    desc: format!("{}: ill-formed UTF-8 {:02x?} appended", s.name, bad),
                    delivered: msg(cmd, &r),
                    expect: Expect::MustReject(ST_INVALID_CBOR),
                });
            }
        }
        // one past the bound (status only: where the bound lies is not this property's statement)
        for (what, v) in one_past_bound(s, rng) {
            let r = replace(root, &s.path, |_| v).unwrap();
            let d = msg(cmd, &r);
            if d.len() <= MAX_MSG {
                cases.push(Case {
                    class: "past_bound",
                    site: s.name.clone(),
                    desc: format!("{}: {}", s.name, what),
                    delivered: d,
                    expect: Expect::MustReject(ST_INVALID_CBOR),
                });
            }
        }
        for (what, v) in past_int_range(s) {
            let r = replace(root, &s.path, |_| v).unwrap();
            // a number outside the member's integer type must be rejected; which sub-command numbers are
            // assigned is a table (C18), so for those only the status of a rejection is stated
            let expect = if what.starts_with("unassigned") { Expect::IfRejected(ST_INVALID_CBOR) } else { Expect::MustReject(ST_INVALID_CBOR) };
            cases.push(Case {
                class: "past_range",
                site: s.name.clone(),
                desc: format!("{}: {}", s.name, what),
                delivered: msg(cmd, &r),
                expect,
            });
        }
    }
    cases
}

/// Command-byte faults: every unassigned / unsupported byte with four payload kinds.
pub fn command_byte_cases(valid_payload: &[u8], rng: &mut Rng) -> Vec<Case> {
    let mut cases = Vec::new();
    for b in 0u16..=255 {
        let b = b as u8;
        let class = schema::classify_cmd(b);
        let payloads: Vec<(&str, Vec<u8>)> = vec![
            ("empty", vec![]),
            ("valid", valid_payload.to_vec()),
            ("malformed", vec![0xbf, 0x01, 0x5f, 0xff, 0x1c]),
            ("random", {
                let n = rng.usize_below(40);
                rng.bytes(n)
            }),
        ];
        for (pk, p) in payloads {
            let mut d = vec![b];
            d.extend_from_slice(&p);
            match class {
                schema::CmdClass::Unassigned | schema::CmdClass::Unsupported => cases.push(Case {
                    class: "command_byte",
                    site: format!("{:?}", class),
                    desc: format!("command byte 0x{:02x} ({:?}) with {} payload", b, class, pk),
                    delivered: d,
                    expect: Expect::MustReject(ST_INVALID_COMMAND),
                }),
                schema::CmdClass::NoParams | schema::CmdClass::Vendor => cases.push(Case {
                    class: "command_byte_noparams",
                    site: format!("{:?}", class),
                    desc: format!("command byte 0x{:02x} ({:?}) with {} payload", b, class, pk),
                    delivered: d,
                    expect: Expect::StatusSet { lacks_required: false },
                }),
                schema::CmdClass::Params => {}
            }
        }
    }
    cases
}

// ------------------------------------------------------------------ link faults

#[derive(Clone, Debug, PartialEq)]
pub enum LinkFault {
    Truncate(usize),
    Flip(usize, u8),
    Overwrite(usize, u8),
    Delete(usize, usize),
    Dup(usize, usize),
    Insert(usize, Vec<u8>),
    Swap(usize, usize, usize),
    /// bytes of a previous message showing through from offset k on
    Splice(usize, Vec<u8>),
    Tail(Vec<u8>),
}

impl LinkFault {
    pub fn kind(&self) -> &'static str {
        match self {
            LinkFault::Truncate(_) => "truncate",
            LinkFault::Flip(..) => "flip",
            LinkFault::Overwrite(..) => "overwrite",
            LinkFault::Delete(..) => "delete",
            LinkFault::Dup(..) => "dup",
            LinkFault::Insert(..) => "insert",
            LinkFault::Swap(..) => "swap",
            LinkFault::Splice(..) => "splice",
            LinkFault::Tail(_) => "tail",
        }
    }

    pub fn apply(&self, m: &mut Vec<u8>) {
        let n = m.len();
        match self {
            LinkFault::Truncate(k) => m.truncate((*k).min(n)),
            LinkFault::Flip(k, bit) => {
                if n > 0 {
                    m[*k % n] ^= 1 << (bit & 7)
                }
            }
            LinkFault::Overwrite(k, b) => {
                if n > 0 {
                    m[*k % n] = *b
                }
            }
            LinkFault::Delete(k, len) => {
                if n > 0 {
                    let k = *k % n;
                    let e = (k + *len).min(n);
                    m.drain(k..e);
                }
            }
            LinkFault::Dup(k, len) => {
                if n > 0 {
                    let k = *k % n;
                    let e = (k + *len).min(n);
                    let seg = m[k..e].to_vec();
                    let at = e;
                    m.splice(at..at, seg);
                }
            }
            LinkFault::Insert(k, b) => {
                let k = if n == 0 { 0 } else { *k % (n + 1) };
                m.splice(k..k, b.iter().copied());
            }
            LinkFault::Swap(a, b, len) => {
                if n >= 2 {
                    let (mut a, mut b) = (*a % n, *b % n);
                    if a > b {
                        std::mem::swap(&mut a, &mut b);
                    }
                    let len = (*len).min(b - a).min(n - b);
                    for i in 0..len {
                        m.swap(a + i, b + i);
                    }
                }
            }
            LinkFault::Splice(k, prev) => {
                let k = if n == 0 { 0 } else { *k % (n + 1) };
                m.truncate(k);
                if prev.len() > k {
                    m.extend_from_slice(&prev[k..]);
                }
            }
            LinkFault::Tail(b) => m.extend_from_slice(b),
        }
        if m.len() > MAX_MSG {
            m.truncate(MAX_MSG);
        }
    }

    pub fn show(&self) -> String {
        match self {
            LinkFault::Insert(k, b) => format!("insert({}, {} bytes)", k, b.len()),
            LinkFault::Splice(k, b) => format!("splice({}, prev of {} bytes)", k, b.len()),
            LinkFault::Tail(b) => format!("tail({} bytes)", b.len()),
            o => format!("{:?}", o).to_lowercase(),
        }
    }
}

/// Offsets at which CBOR items of the payload start (+1 for the command byte), for boundary-biased faults.
pub fn item_boundaries(cmd_and_payload: &[u8]) -> Vec<usize> {
    fn rec(d: &[u8], pos: &mut usize, out: &mut Vec<usize>, depth: usize) -> Option<()> {
        if depth > 64 {
            return None;
        }
        out.push(*pos);
        let ib = *d.get(*pos)?;
        *pos += 1;
        let (major, ai) = (ib >> 5, ib & 31);
        let arg = match ai {
            0..=23 => ai as u64,
            24 => {
                let v = *d.get(*pos)? as u64;
                *pos += 1;
                v
            }
            25 => {
                let v = u16::from_be_bytes(d.get(*pos..*pos + 2)?.try_into().ok()?) as u64;
                *pos += 2;
                v
            }
            26 => {
                let v = u32::from_be_bytes(d.get(*pos..*pos + 4)?.try_into().ok()?) as u64;
                *pos += 4;
                v
            }
            27 => {
                let v = u64::from_be_bytes(d.get(*pos..*pos + 8)?.try_into().ok()?);
                *pos += 8;
                v
            }
            _ => return None,
        };
        match major {
            2 | 3 => {
                *pos = pos.checked_add(arg as usize)?;
                if *pos > d.len() {
                    return None;
                }
            }
            4 => {
                for _ in 0..arg {
                    rec(d, pos, out, depth + 1)?;
                }
            }
            5 => {
                for _ in 0..arg.checked_mul(2)? {
                    rec(d, pos, out, depth + 1)?;
                }
            }
            6 => rec(d, pos, out, depth + 1)?,
            _ => {}
        }
        Some(())
    }
    let mut out = vec![0];
    let mut pos = 1;
    let _ = rec(cmd_and_payload, &mut pos, &mut out, 0);
    out.retain(|o| *o <= cmd_and_payload.len());
    out
}

pub fn random_link_fault(rng: &mut Rng, m: &[u8], prev: &[u8], enabled: u32) -> Option<LinkFault> {
    let n = m.len().max(1);
    let bounds = item_boundaries(m);
    let off = |rng: &mut Rng| -> usize {
        if rng.coin() && !bounds.is_empty() {
            let b = *rng.pick(&bounds);
            // at, just before or just after a boundary
            (b + rng.usize_below(3)).saturating_sub(1) % n
        } else {
            rng.usize_below(n)
        }
    };
    let kinds: Vec<u32> = (0..9).filter(|k| enabled & (1 << k) != 0).collect();
    if kinds.is_empty() {
        return None;
    }
    Some(match *rng.pick(&kinds) {
        0 => LinkFault::Truncate(off(rng)),
        1 => LinkFault::Flip(off(rng), rng.below(8) as u8),
        2 => LinkFault::Overwrite(off(rng), {
            let interesting = [0x00u8, 0xff, 0x1f, 0x5f, 0x7f, 0x9f, 0xbf, 0xf6, 0x18, 0x19, 0x1a, 0x1b, 0x5a, 0x7a, 0x9a, 0xba, 0xc0, 0xf9];
            if rng.coin() {
                *rng.pick(&interesting)
            } else {
                rng.next() as u8
            }
        }),
        3 => LinkFault::Delete(off(rng), 1 + rng.usize_below(8)),
        4 => LinkFault::Dup(off(rng), 1 + rng.usize_below(16)),
        5 => {
            let k = off(rng);
            let len = 1 + rng.usize_below(8);
            LinkFault::Insert(k, rng.bytes(len))
        }
        6 => LinkFault::Swap(off(rng), off(rng), 1 + rng.usize_below(8)),
        7 => LinkFault::Splice(off(rng), prev.to_vec()),
        _ => {
            let len = 1 + rng.usize_below(32);
            LinkFault::Tail(rng.bytes(len))
        }
    })
}

// ------------------------------------------------------------------ structure faults (C04)

/// A value nested `depth` levels deep (arrays, maps or tags), `leaf` at the bottom.
pub fn nested(kind: u8, depth: usize, leaf: V) -> V {
    // built as raw bytes: a recursive V of depth 7000 would overflow the host's own stack on drop
    let mut out = Vec::with_capacity(depth * 2 + 8);
    for _ in 0..depth {
        match kind {
            0 => out.push(0x81),                       // array(1)
            1 => out.extend_from_slice(&[0xa1, 0x00]), // map(1) with key 0
            _ => out.push(0xc1),                       // tag(1)
        }
    }
    cbor::enc_into(&mut out, &leaf);
    V::Raw(out)
}

#[derive(Clone, Debug)]
pub struct StructFault {
    pub kind: &'static str,
    pub desc: String,
}

/// Apply one randomly drawn structure-level fault to a well-formed message tree.
pub fn structure_fault(schema: &MapSchema, root: &V, rng: &mut Rng) -> (V, StructFault) {
    let sites = schema::walk(schema, root);
    let pick_site = |rng: &mut Rng, f: &dyn Fn(&Site) -> bool| -> Option<Site> {
        let c: Vec<&Site> = sites.iter().filter(|s| f(s)).collect();
        if c.is_empty() {
            None
        } else {
            Some((*rng.pick(&c)).clone())
        }
    };
    let budget = MAX_MSG.saturating_sub(enc(root).len() + 16);
    for _attempt in 0..8 {
        match rng.below(9) {
            // grow a string / bytes / array member across its capacity
            0 | 1 => {
                let Some(s) = pick_site(rng, &|s| {
                    matches!(s.ty, Ty::Bytes { .. } | Ty::Text { .. } | Ty::Array { .. })
                }) else { continue };
                let cap = match &s.ty {
                    Ty::Bytes { max, typical, .. } => max.unwrap_or(*typical),
                    Ty::Text { max, .. } => max.unwrap_or(64),
                    Ty::Array { max, .. } => max.unwrap_or(2),
                    _ => 1,
                }
                .max(1);
                let target = match rng.below(5) {
                    0 => cap + 1,
                    1 => 4 * cap,
                    2 => cap + rng.usize_below(cap + 2),
                    3 => budget,
                    _ => cap.saturating_sub(rng.usize_below(3)),
                };
                let v = match &s.ty {
                    Ty::Bytes { .. } => V::B(rng.bytes(target.min(budget))),
                    Ty::Text { .. } => V::T(schema::utf8_text(rng, target.min(budget))),
                    Ty::Array { elem, .. } => {
                        let mut a = Vec::new();
                        let mut used = 0usize;
                        let mode = if rng.coin() { GenMode::Min } else { GenMode::Max };
                        for _ in 0..target.min(2000) {
                            let e = schema::gen_ty(elem, rng, mode);
                            used += enc(&e).len();
                            if used > budget {
                                break;
                            }
                            a.push(e);
                        }
                        V::A(a)
                    }
                    _ => unreachable!(),
                };
                let r = replace(root, &s.path, |_| v).unwrap();
                return (r, StructFault { kind: "grow", desc: format!("{} grown to {} (capacity {})", s.name, target, cap) });
            }
            // push an integer across its type range
            2 => {
                let Some(s) = pick_site(rng, &|s| matches!(s.ty, Ty::UInt { .. } | Ty::Int32 | Ty::Enum(_))) else { continue };
                let cands: [V; 24] = [
                    V::U(255), V::U(256), V::U(65535), V::U(65536), V::U(0xffff_ffff), V::U(1 << 32),
                    V::U(u64::MAX), V::N(0x7fff_ffff), V::N(0x8000_0000), V::N(u64::MAX), V::U(0x7fff_ffff), V::U(0x8000_0000),
                    V::N((1 << 63) - 1), V::N(1 << 63), V::U((1 << 63) - 1), V::U(1 << 63), V::N(127), V::N(128), V::N(32767), V::N(32768),
                    V::U(127), V::U(128), V::N(0xffff_ffff), V::N(1 << 32),
                ];
                // small values too: gaps in enumerations, zero, one past a small table
                let v = if rng.chance(1, 3) { V::U(rng.below(17)) } else { rng.pick(&cands).clone() };
                let d = cbor::show(&v);
                let r = replace(root, &s.path, |_| v).unwrap();
                return (r, StructFault { kind: "int_range", desc: format!("{} set to {}", s.name, d) });
            }
            // deep nesting in an unknown-member slot of a text-keyed map, or in a typed slot
            3 | 4 => {
                let depth = match rng.below(4) {
                    0 => budget.saturating_sub(2),
                    1 => budget / 2,
                    2 => 1 + rng.usize_below(64),
                    _ => 1 + rng.usize_below(budget.max(2) - 1),
                };
                let kind = rng.below(3) as u8;
                let per = if kind == 1 { 2 } else { 1 };
                let depth = (depth / per).max(1);
                let leaf = match rng.below(4) {
                    0 => V::U(0),
                    1 => V::A(vec![]),
                    2 => V::Head(4, 31),
                    _ => V::Raw(vec![]),
                };
                let nv = nested(kind, depth, leaf);
                let open_maps: Vec<&Site> = sites
                    .iter()
                    .filter(|s| matches!(&s.ty, Ty::Map(ms) if matches!(ms.members[0].key, schema::K::T(_))))
                    .collect();
                if rng.coin() && !open_maps.is_empty() {
                    let s = (*rng.pick(&open_maps)).clone();
                    let r = replace(root, &s.path, |old| match old {
                        V::M(mut m) => {
                            let at = rng.usize_below(m.len() + 1);
                            m.insert(at, (t("zzUnknown"), nv));
                            V::M(m)
                        }
                        o => o,
                    })
                    .unwrap();
                    return (r, StructFault { kind: "nest_unknown", desc: format!("unknown member of {} nested {} deep (kind {})", s.name, depth, kind) });
                } else {
                    let Some(s) = pick_site(rng, &|_| true) else { continue };
                    let r = replace(root, &s.path, |_| nv).unwrap();
                    return (r, StructFault { kind: "nest_typed", desc: format!("{} replaced by nesting {} deep (kind {})", s.name, depth, kind) });
                }
            }
            // declared length with no content
            5 => {
                let Some(s) = pick_site(rng, &|_| true) else { continue };
                let major = 2 + rng.below(4) as u8;
                let lens = [0u64, 1, 23, 24, 255, 256, 65535, 65536, 0x7fff_ffff, 0xffff_ffff, 1 << 32, u64::MAX];
                let n = *rng.pick(&lens);
                let r = replace(root, &s.path, |_| V::Declared(major, n)).unwrap();
                return (r, StructFault { kind: "declared_len", desc: format!("{} replaced by major {} declaring length {}", s.name, major, n) });
            }
            // reserved additional information / break / float / tag in a typed slot
            6 => {
                let Some(s) = pick_site(rng, &|_| true) else { continue };
                let v = match rng.below(6) {
                    0 => V::Head(rng.below(8) as u8, 28 + rng.below(4) as u8),
                    1 => V::Raw(vec![0xff]),
                    2 => V::F16(0x7e00),
                    3 => V::F64(0x7ff8_0000_0000_0000),
                    4 => V::Tag(rng.next() >> rng.below(64), Box::new(V::U(0))),
                    _ => V::Simple(rng.next() as u8 | 32),
                };
                let d = cbor::show(&v);
                let r = replace(root, &s.path, |_| v).unwrap();
                return (r, StructFault { kind: "odd_item", desc: format!("{} replaced by {}", s.name, d) });
            }
            // map / array count that disagrees with the content
            7 => {
                let Some(s) = pick_site(rng, &|s| matches!(s.ty, Ty::Map(_) | Ty::Array { .. } | Ty::CoseEcdh)) else { continue };
                let counts = [0u64, 1, 2, 23, 24, 255, 256, 65536, 0xffff_ffff, 1 << 32];
                let n = *rng.pick(&counts);
                let r = replace(root, &s.path, |old| match old {
                    V::M(m) => V::MapCount(n, m),
                    V::A(a) => V::ArrCount(n, a),
                    o => o,
                })
                .unwrap();
                return (r, StructFault { kind: "bad_count", desc: format!("{} declares {} entries", s.name, n) });
            }
            // multi-byte characters straddling a truncation boundary
            _ => {
                let Some(s) = pick_site(rng, &|s| matches!(s.ty, Ty::Text { lossy: Lossy::Truncate | Lossy::Drop | Lossy::Discard, .. })) else { continue };
                let cap = match &s.ty {
                    Ty::Text { max: Some(c), .. } => *c,
                    _ => 64,
                };
                // ASCII prefix so that a 2/3/4-byte character starts at cap-3 .. cap
                let lead = (cap + 2).saturating_sub(rng.usize_below(9));
                let mut b = vec![b'a'; lead];
                let ch = ["é", "€", "😀"][rng.usize_below(3)];
                for _ in 0..1 + rng.usize_below(40) {
                    b.extend_from_slice(ch.as_bytes());
                }
                let r = replace(root, &s.path, |_| V::T(b)).unwrap();
                return (r, StructFault { kind: "straddle", desc: format!("{}: {}-byte characters from offset {} (capacity {})", s.name, ch.len(), lead, cap) });
            }
        }
    }
    (root.clone(), StructFault { kind: "none", desc: "no applicable site".into() })
}

/// Replace the leaf of an int key for use in tests
#[allow(dead_code)]
pub fn k(i: i64) -> V {
    int(i)
}
