//! C07 — authenticator data layout, and no partial data when the 676-byte sink overflows.
//!
//! In the simulated device it is the authenticator application that calls
//! `AuthenticatorData::serialize` to build the `auth_data` of its responses. The point at
//! which the fixed sink becomes full is moved through every byte of every trailing part
//! by sweeping the credential-id length.

use crate::cbor::{self, t, V};
use crate::core::Stats;
use crate::guard::guard;
use crate::json::{self, obj, s, J};
use crate::prng::Rng;
use crate::trace::{Device, Finding, Log, Step};
use ctap_types::ctap2::{self, AuthenticatorDataFlags};

pub const REQUIRED_PROBES: [&str; 9] = [
    "total_exactly_676",
    "total_677",
    "overflow_inside_extension_map",
    "overflow_inside_credential_id",
    "overflow_inside_public_key",
    "id_len_over_u16",
    "ok_with_extensions",
    "get_assertion_flavour",
    "all_16_flag_combinations",
];

pub const CAPACITY: usize = 676;

#[derive(Clone, Debug, PartialEq)]
pub struct AuthDataSpec {
    /// 0 = MakeCredential flavour, 1 = GetAssertion flavour
    pub flavour: u8,
    /// bit0 UP, bit1 UV, bit2 AT, bit3 ED (an index, not the wire value)
    pub flags: u8,
    pub count: u32,
    pub attested: bool,
    pub aaguid_len: usize,
    pub id_len: usize,
    pub key_len: usize,
    pub ext: bool,
    /// MC: bit0 credProtect, bit1 hmac-secret, bit2 largeBlobKey, bit3 thirdPartyPayment; GA: bit0 hmac-secret, bit1 thirdPartyPayment
    pub ext_mask: u8,
    /// MC: credProtect value; GA: hmac-secret output length (0..=80)
    pub ext_val: u32,
    pub fill: u64,
}

impl AuthDataSpec {
    pub fn to_json(&self) -> J {
        obj(vec![
            ("op", s("auth_data")),
            ("flavour", json::i(self.flavour)),
            ("flags", json::i(self.flags)),
            ("count", json::i(self.count)),
            ("attested", J::Bool(self.attested)),
            ("aaguid_len", json::i(self.aaguid_len)),
            ("id_len", json::i(self.id_len)),
            ("key_len", json::i(self.key_len)),
            ("ext", J::Bool(self.ext)),
            ("ext_mask", json::i(self.ext_mask)),
            ("ext_val", json::i(self.ext_val)),
            ("fill", s(format!("{:x}", self.fill))),
        ])
    }
    pub fn from_json(j: &J) -> Option<AuthDataSpec> {
        let g = |k: &str| j.get(k).and_then(|x| x.int());
        Some(AuthDataSpec {
            flavour: g("flavour")? as u8,
            flags: g("flags")? as u8,
            count: g("count")? as u32,
            attested: j.get("attested")?.bool()?,
            aaguid_len: g("aaguid_len")? as usize,
            id_len: g("id_len")? as usize,
            key_len: g("key_len")? as usize,
            ext: j.get("ext")?.bool()?,
            ext_mask: g("ext_mask")? as u8,
            ext_val: g("ext_val")? as u32,
            fill: u64::from_str_radix(j.get("fill")?.str()?, 16).ok()?,
        })
    }
    pub fn shrinks(&self) -> Vec<AuthDataSpec> {
        let mut out = Vec::new();
        let mut push = |f: &dyn Fn(&mut AuthDataSpec)| {
            let mut q = self.clone();
            f(&mut q);
            if q != *self {
                out.push(q);
            }
        };
        push(&|q| q.ext = false);
        push(&|q| q.ext_mask = 0);
        push(&|q| q.attested = false);
        push(&|q| q.key_len = 0);
        push(&|q| q.key_len /= 2);
        push(&|q| q.aaguid_len = 0);
        push(&|q| q.id_len = 0);
        push(&|q| q.id_len /= 2);
        push(&|q| q.id_len = q.id_len.saturating_sub(1));
        push(&|q| q.count = 0);
        push(&|q| q.flags = 0);
        push(&|q| q.fill = 0);
        push(&|q| q.ext_val = 0);
        for b in 0..4 {
            push(&|q| q.ext_mask &= !(1 << b));
            push(&|q| q.flags &= !(1 << b));
        }
        out
    }
}

fn fb(fill: u64, tag: u64, n: usize) -> Vec<u8> {
    if tag == 4 {
        return public_key(fill, n);
    }
    Rng::new(fill, tag, 7).content(n)
}

/// Credential public keys as authenticators really hold them: COSE_Key encodings (P-256 / ES256, 77
/// bytes; Ed25519 / EdDSA, 42 bytes), exact, followed by further bytes, or carrying an extra
/// parameter - besides opaque content.
fn public_key(fill: u64, n: usize) -> Vec<u8> {
    let mut r = Rng::new(fill, 4, 7);
    let style = r.below(6);
    let opaque = Rng::new(fill, 4, 8).content(n);
    if style == 0 {
        return opaque;
    }
    let x = r.bytes(32);
    let y = r.bytes(32);
    let mut k: Vec<u8> = Vec::new();
    let extra = style == 3 || style == 4;
    if style % 2 == 1 {
        // EC2 / ES256 / P-256
        k.push(if extra { 0xa6 } else { 0xa5 });
        k.extend_from_slice(&[0x01, 0x02, 0x03, 0x26, 0x20, 0x01, 0x21, 0x58, 0x20]);
        k.extend_from_slice(&x);
        k.extend_from_slice(&[0x22, 0x58, 0x20]);
        k.extend_from_slice(&y);
    } else {
        // OKP / EdDSA / Ed25519
        k.push(if extra { 0xa5 } else { 0xa4 });
        k.extend_from_slice(&[0x01, 0x01, 0x03, 0x27, 0x20, 0x06, 0x21, 0x58, 0x20]);
        k.extend_from_slice(&x);
    }
    if extra {
        k.extend_from_slice(&[0x02, 0x42, 0xaa, 0xbb]); // kid
    }
    if k.len() > n {
        return opaque;
    }
    // whatever room is left holds further bytes
    let rest = n - k.len();
    k.extend_from_slice(&opaque[..rest]);
    k
}

/// GetAssertion flavour: length of the hmac-secret output (low 7 bits of `ext_val`, at most 80).
fn hmac_len(x: &AuthDataSpec) -> usize {
    ((x.ext_val & 0x7f) as usize).min(80)
}

/// The expected extension map per the supplied members (host side).
fn expected_ext(x: &AuthDataSpec) -> Vec<(V, V)> {
    let mut m = Vec::new();
    if x.flavour == 0 {
        if x.ext_mask & 1 != 0 {
            m.push((t("credProtect"), V::U((x.ext_val & 0xff) as u64)));
        }
        if x.ext_mask & 2 != 0 {
            m.push((t("hmac-secret"), V::Bool(x.ext_val & 0x100 != 0)));
        }
        if x.ext_mask & 4 != 0 {
            m.push((t("largeBlobKey"), V::Bool(x.ext_val & 0x200 != 0)));
        }
        if cfg!(feature = "third-party-payment") && x.ext_mask & 8 != 0 {
            m.push((t("thirdPartyPayment"), V::Bool(x.ext_val & 0x400 != 0)));
        }
    } else {
        if x.ext_mask & 1 != 0 {
            m.push((t("hmac-secret"), V::B(fb(x.fill, 5, hmac_len(x)))));
        }
        if cfg!(feature = "third-party-payment") && x.ext_mask & 2 != 0 {
            m.push((t("thirdPartyPayment"), V::Bool(x.ext_val & 0x400 != 0)));
        }
    }
    m
}

/// Flag byte per WebAuthn (not per the crate's constants).
fn webauthn_flags(idx: u8) -> u8 {
    let mut f = 0u8;
    if idx & 1 != 0 {
        f |= 0x01; // UP
    }
    if idx & 2 != 0 {
        f |= 0x04; // UV
    }
    if idx & 4 != 0 {
        f |= 0x40; // AT
    }
    if idx & 8 != 0 {
        f |= 0x80; // ED
    }
    f
}

fn crate_flags(idx: u8) -> AuthenticatorDataFlags {
    let mut f = AuthenticatorDataFlags::empty();
    if idx & 1 != 0 {
        f |= AuthenticatorDataFlags::USER_PRESENCE;
    }
    if idx & 2 != 0 {
        f |= AuthenticatorDataFlags::USER_VERIFIED;
    }
    if idx & 4 != 0 {
        f |= AuthenticatorDataFlags::ATTESTED_CREDENTIAL_DATA;
    }
    if idx & 8 != 0 {
        f |= AuthenticatorDataFlags::EXTENSION_DATA;
    }
    f
}

/// Call the real serialiser. Ok(bytes) / Err(status).
fn call_real(x: &AuthDataSpec) -> Result<Vec<u8>, u8> {
    // every borrowed input at an address alignment of its own (1 + a value derived from the run's fill word)
    use crate::guard::Placed;
    let al = |k: u32| ((x.fill >> (3 * k)) & 7) as usize;
    let rp_p = Placed::new(&fb(x.fill, 1, 32), al(1));
    let rp: &[u8; 32] = rp_p.get().try_into().unwrap();
    let aaguid_p = Placed::new(&fb(x.fill, 2, x.aaguid_len), al(2));
    let id_p = Placed::new(&fb(x.fill, 3, x.id_len), al(3));
    let key_p = Placed::new(&fb(x.fill, 4, x.key_len), al(4));
    let (aaguid, id, key) = (aaguid_p.get(), id_p.get(), key_p.get());
    if x.flavour == 0 {
        use ctap2::make_credential::{AttestedCredentialData, AuthenticatorData, Extensions};
        let ext = if x.ext {
            let mut e = Extensions::default();
            if x.ext_mask & 1 != 0 {
                e.cred_protect = Some((x.ext_val & 0xff) as u8);
            }
            if x.ext_mask & 2 != 0 {
                e.hmac_secret = Some(x.ext_val & 0x100 != 0);
            }
            if x.ext_mask & 4 != 0 {
                e.large_blob_key = Some(x.ext_val & 0x200 != 0);
            }
            #[cfg(feature = "third-party-payment")]
            if x.ext_mask & 8 != 0 {
                e.third_party_payment = Some(x.ext_val & 0x400 != 0);
            }
            Some(e)
        } else {
            None
        };
        let ad = AuthenticatorData {
            rp_id_hash: rp,
            flags: crate_flags(x.flags),
            sign_count: x.count,
            attested_credential_data: if x.attested { Some(AttestedCredentialData { aaguid, credential_id: id, credential_public_key: key }) } else { None },
            extensions: ext,
        };
        ad.serialize().map(|b| b.to_vec()).map_err(|e| e as u8)
    } else {
        use ctap2::get_assertion::{AuthenticatorData, ExtensionsOutput, NoAttestedCredentialData};
        let ext = if x.ext {
            let mut e = ExtensionsOutput::default();
            if x.ext_mask & 1 != 0 {
                e.hmac_secret = Some(ctap_types::Bytes::from_slice(&fb(x.fill, 5, hmac_len(x))).unwrap());
            }
            #[cfg(feature = "third-party-payment")]
            if x.ext_mask & 2 != 0 {
                e.third_party_payment = Some(x.ext_val & 0x400 != 0);
            }
            Some(e)
        } else {
            None
        };
        let ad = AuthenticatorData {
            rp_id_hash: rp,
            flags: crate_flags(x.flags),
            sign_count: x.count,
            attested_credential_data: if x.attested { Some(NoAttestedCredentialData) } else { None },
            extensions: ext,
        };
        ad.serialize().map(|b| b.to_vec()).map_err(|e| e as u8)
    }
}

fn finding(rule: &str, detail: String) -> Option<Finding> {
    Some(Finding { rule: rule.into(), detail })
}

pub fn exec(dev: &mut Device, x: &AuthDataSpec, log: &mut Log) -> Option<Finding> {
    // host-side layout model: plain concatenation
    let mut model: Vec<u8> = fb(x.fill, 1, 32);
    model.push(webauthn_flags(x.flags));
    model.push((x.count >> 24) as u8);
    model.push((x.count >> 16) as u8);
    model.push((x.count >> 8) as u8);
    model.push(x.count as u8);
    let mut parts: Vec<(&str, usize)> = vec![("fixed", 37)];
    if x.attested && x.flavour == 0 {
        model.extend_from_slice(&fb(x.fill, 2, x.aaguid_len));
        model.push((x.id_len >> 8) as u8);
        model.push(x.id_len as u8);
        model.extend_from_slice(&fb(x.fill, 3, x.id_len));
        model.extend_from_slice(&fb(x.fill, 4, x.key_len));
        parts.push(("aaguid", x.aaguid_len));
        parts.push(("id_length", 2));
        parts.push(("credential_id", x.id_len));
        parts.push(("public_key", x.key_len));
    }
    let fixed_len = model.len();
    let mut want_ext = expected_ext(x);
    let ext_len = if x.ext {
        cbor::sort_canonical(&mut want_ext);
        cbor::enc(&V::M(want_ext.clone())).len()
    } else {
        0
    };
    if x.ext {
        parts.push(("extension_map", ext_len));
    }
    let total = fixed_len + ext_len;
    let id_ok = !(x.attested && x.flavour == 0) || x.id_len <= 65535;
    let must_ok = total <= CAPACITY && id_ok;
    // in which part does byte 676 fall (for the probes)?
    let mut part_at_overflow = "";
    if total > CAPACITY {
        let mut acc = 0;
        for (n, l) in &parts {
            if acc + l > CAPACITY {
                part_at_overflow = n;
                break;
            }
            acc += l;
        }
    }
    let r = guard(|| call_real(x));
    let r = match r {
        Ok(r) => r,
        Err(p) => {
            log.event(&format!("auth_data total={} -> PANIC", total));
            return finding("panic", format!("AuthenticatorData::serialize panicked (model total {} bytes): {}", total, p));
        }
    };
    log.event(&format!(
        "auth_data flavour={} total={} -> {}",
        x.flavour,
        total,
        match &r {
            Ok(b) => format!("Ok(len={},h={:016x})", b.len(), crate::prng::fnv(b)),
            Err(e) => format!("Err(0x{:02x})", e),
        }
    ));
    dev.last_outcome = format!("{}:{}:{}:{}", if r.is_ok() { "ok" } else { "err" }, total, part_at_overflow, if id_ok { "" } else { "id_over_u16" });
    match r {
        Ok(b) => {
            if !must_ok {
                return finding(
                    "ok_but_too_large",
                    format!("serialize returned Ok with {} bytes although the parts sum to {} (capacity {}, credential id {} bytes)", b.len(), total, CAPACITY, x.id_len),
                );
            }
            if b.len() != total {
                return finding("length", format!("serialize returned {} bytes, the parts sum to {}", b.len(), total));
            }
            if b[..fixed_len] != model[..] {
                let at = b.iter().zip(model.iter()).position(|(a, c)| a != c).unwrap_or(0);
                let what = match at {
                    0..=31 => "rpIdHash",
                    32 => "flags",
                    33..=36 => "signCount",
                    _ => "attested credential data",
                };
                return finding(
                    "layout",
                    format!("byte {} ({}) is 0x{:02x}, WebAuthn layout requires 0x{:02x} (flags index {}, counter 0x{:08x}, id length {})", at, what, b[at], model[at], x.flags, x.count, x.id_len),
                );
            }
            if x.ext {
                match cbor::decode_one(&b[fixed_len..]) {
                    Ok((V::M(got), _)) => {
                        let mut sorted = got.clone();
                        cbor::sort_canonical(&mut sorted);
                        if sorted != want_ext {
                            return finding("extension_map", format!("extension map is {} but {} was supplied", cbor::show(&V::M(got)), cbor::show(&V::M(want_ext))));
                        }
                        // WebAuthn 6: all CBOR in authenticator data is in the CTAP2 canonical form - keys in
                        // canonical order (shorter first, then bytewise), shortest integer and length encodings
                        if got != want_ext {
                            return finding("extension_map_order", format!("extension map entries are written as {} but the canonical order is {}", cbor::show(&V::M(got)), cbor::show(&V::M(want_ext))));
                        }
                        let canon = cbor::enc(&V::M(want_ext.clone()));
                        if b[fixed_len..] != canon[..] {
                            return finding("extension_map_encoding", format!("extension map bytes {} are not the canonical encoding {}", json::hex(&b[fixed_len..]), json::hex(&canon)));
                        }
                    }
                    other => {
                        return finding("extension_map", format!("bytes after the fixed parts are not exactly one CBOR map: {:?}", other.map(|(v, _)| cbor::show(&v))));
                    }
                }
            }
            None
        }
        Err(_) => {
            if must_ok {
                return finding("err_but_fits", format!("serialize failed although the parts sum to {} <= {} and the credential id has {} bytes", total, CAPACITY, x.id_len));
            }
            None
        }
    }
}

const AAGUIDS: [usize; 3] = [16, 0, 17];
const KEYS_QUICK: [usize; 4] = [77, 0, 32, 256];
const COUNTS: [u32; 10] = [0, 1, 0xff, 0x100, 0x0102_0304, 0xffff_ffff, 0x8000_0000, 0x7fff_ffff, 0x00ff_ff00, 0xff00_00ff];

fn ext_variants() -> u64 {
    // none + every subset of the MC extension members
    1 + if cfg!(feature = "third-party-payment") { 16 } else { 8 }
}

pub fn plan(tier: &str) -> u64 {
    let mc = 3 * ext_variants();
    match tier {
        "thorough" => mc * 257 + 64,
        "selfcheck" => 20_000,
        _ => mc * 4 + 8,
    }
}

pub fn gen(seed: u64, run: u64, tier: &str) -> Vec<Step> {
    let mut rng = Rng::new(seed, run, 7);
    let keys: Vec<usize> = if tier == "thorough" { (0..=256).collect() } else { KEYS_QUICK.to_vec() };
    let mc_runs = 3 * ext_variants() * keys.len() as u64;
    let mut steps = Vec::new();
    if run < mc_runs && tier != "selfcheck" || tier == "selfcheck" && run % 3 != 2 {
        let ev = run % ext_variants();
        let aaguid_len = AAGUIDS[(run / ext_variants() % 3) as usize];
        let key_len = keys[(run / ext_variants() / 3) as usize % keys.len()];
        let (ext, ext_mask) = if ev == 0 { (false, 0) } else { (true, (ev - 1) as u8) };
        let mut ids: Vec<usize> = if tier == "selfcheck" { (0..=700).step_by(13).collect() } else { (0..=700).collect() };
        ids.extend([65535, 65536, 70000]);
        for (k, id_len) in ids.into_iter().enumerate() {
            let count = if k % 2 == 1 { rng.next() as u32 } else { COUNTS[(k / 2) % COUNTS.len()] };
            steps.push(Step::AuthData(AuthDataSpec {
                flavour: 0,
                flags: (k % 16) as u8,
                count,
                attested: true,
                aaguid_len,
                id_len,
                key_len,
                ext,
                ext_mask,
                ext_val: rng.next() as u32,
                fill: rng.next(),
            }));
        }
    } else {
        // GetAssertion flavour and MakeCredential without attested data: extension subsets x hmac-secret lengths x flags x counters
        for k in 0..700usize {
            let flavour = if k % 5 == 4 { 0 } else { 1 };
            steps.push(Step::AuthData(AuthDataSpec {
                flavour,
                flags: (k % 16) as u8,
                count: if k % 3 == 2 { rng.next() as u32 } else { COUNTS[k % COUNTS.len()] },
                attested: flavour == 1 && k % 2 == 0,
                aaguid_len: 0,
                id_len: 0,
                key_len: 0,
                ext: k % 9 != 0,
                ext_mask: (k / 3 % 16) as u8,
                ext_val: (k as u32 % 81) | ((rng.next() as u32) & 0x700),
                fill: rng.next(),
            }));
        }
    }
    steps
}

pub fn account(step: &Step, outcome: &str, stats: &mut Stats) {
    if let Step::AuthData(x) = step {
        stats.evaluations += 1;
        stats.real_calls += 1;
        stats.fault("part_length");
        let mut it = outcome.split(':');
        let ok = it.next() == Some("ok");
        let total: usize = it.next().and_then(|d| d.parse().ok()).unwrap_or(0);
        let part = it.next().unwrap_or("");
        let id_over = it.next() == Some("id_over_u16");
        if total == CAPACITY {
            stats.probe("total_exactly_676");
        }
        if total == CAPACITY + 1 {
            stats.probe("total_677");
        }
        match part {
            "extension_map" => stats.probe("overflow_inside_extension_map"),
            "credential_id" => stats.probe("overflow_inside_credential_id"),
            "public_key" => stats.probe("overflow_inside_public_key"),
            "aaguid" => stats.probe("overflow_inside_aaguid"),
            "id_length" => stats.probe("overflow_inside_id_length"),
            _ => {}
        }
        if !part.is_empty() {
            stats.fault("sink_full");
        }
        if id_over {
            stats.probe("id_len_over_u16");
        }
        if ok && x.ext && x.ext_mask != 0 {
            stats.probe("ok_with_extensions");
        }
        if x.flavour == 1 {
            stats.probe("get_assertion_flavour");
        }
        stats.probe(&format!("flags_{:x}", x.flags & 15));
        if (0..16).all(|f| stats.probes.contains_key(&format!("flags_{:x}", f))) {
            stats.probe("all_16_flag_combinations");
        }
        let margin = (total as i64 - CAPACITY as i64).clamp(-3, 3);
        stats.distinct(&[&x.flavour.to_string(), &x.aaguid_len.to_string(), &x.key_len.to_string(), &format!("{}{:x}", x.ext, x.ext_mask), part, &margin.to_string(), &(x.flags & 15).to_string()]);
        if stats.evaluations % 30011 == 1 {
            let mut j = x.to_json();
            j.set("outcome", s(outcome));
            stats.sample(j);
        }
    }
}
