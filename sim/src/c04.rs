//! C04 — decoding untrusted CTAP2 bytes never panics, aborts or hangs, and is deterministic.
//!
//! Host model -> corrupting link -> device receive buffer -> real `Request::deserialize`
//! (and `cbor_deserialize::<T>` for the nested public types). The oracle says nothing
//! about which of Ok/Err comes back.

use crate::cbor::{self, enc, get, int, t, V};
use crate::core::Stats;
use crate::faults::{self, LinkFault, MAX_MSG};
use crate::json::{self, obj, s, J};
use crate::prng::{Fnv, Rng};
use crate::schema::{self, GenMode, MapSchema, Site, Ty, PARAM_CMDS};
use crate::trace::{DeliverExpect, Step};

pub const REQUIRED_PROBES: [&str; 15] = [
    "overlong_lossy_member_checked",
    "decode_ok",
    "decode_err",
    "nested_ok",
    "nested_err",
    "truncation_inside_nested_map",
    "structure_grow",
    "structure_nest_deep_ge_7000",
    "structure_straddle",
    "recovery_checked",
    "fault_free_exchange",
    "redelivered",
    "corrupted_copy",
    "soak_rejected",
    "soak_accepted",
];

const SWEEP_RUNS: u64 = 3 + 256 + 6 * 256;

pub fn plan(tier: &str) -> u64 {
    match tier {
        "thorough" => SWEEP_RUNS + 2_000_000,
        "selfcheck" => 20_000,
        _ => 60_000,
    }
}

struct Cfg {
    fault_free: bool,
    link_mask: u32,
    max_link_faults: u64,
    p_struct_num: u64, // out of 8
    exchanges: usize,
    mode_bias: u64,
}

fn cfg_for(rng: &mut Rng, run: u64) -> Cfg {
    let fault_free = run % 8 == 0;
    Cfg {
        fault_free,
        link_mask: if fault_free {
            0
        } else {
            let m = (rng.next() & 0x1ff) as u32;
            if m == 0 {
                0x1ff
            } else {
                m
            }
        },
        max_link_faults: if fault_free { 0 } else { 1 + rng.below(4) },
        p_struct_num: if fault_free { 0 } else { *rng.pick(&[0u64, 2, 4, 8]) },
        exchanges: {
            let hi = if rng.chance(1, 8) { 32 } else { 12 };
            1 + rng.usize_below(hi)
        },
        mode_bias: rng.below(3),
    }
}

fn pick_cmd(rng: &mut Rng) -> u8 {
    match rng.below(10) {
        0..=6 => *rng.pick(&PARAM_CMDS),
        7 => *rng.pick(&[0x04u8, 0x07, 0x08, 0x0B, 0x42, 0x7f, 0x50]),
        8 => rng.next() as u8,
        _ => *rng.pick(&[0x09u8, 0x0D, 0x40, 0x00, 0x03, 0x05, 0x0E, 0x3f, 0x80, 0xff]),
    }
}

fn top_level_map_spans(root: &V) -> Vec<(usize, usize)> {
    // byte spans (within cmd||payload) of top-level member values that are maps
    let mut out = Vec::new();
    if let V::M(m) = root {
        let mut pos = 1 + {
            let mut h = Vec::new();
            cbor::enc_into(&mut h, &V::Declared(5, m.len() as u64));
            h.len()
        };
        for (k, v) in m {
            pos += enc(k).len();
            let l = enc(v).len();
            if matches!(v, V::M(_)) {
                out.push((pos, pos + l));
            }
            pos += l;
        }
    }
    out
}

/// Which nested decoders a sub-value of the message is a natural input for.
fn nested_types_for(site: &Site, cmd: u8) -> Vec<&'static str> {
    let n = site.name.as_str();
    let base = n.split('[').next().unwrap_or(n);
    let is_elem = site.is_elem;
    match (base, is_elem, &site.ty) {
        ("rp", false, _) => vec!["RpEntity"],
        ("user", false, _) => vec!["UserEntity"],
        ("excludeList", true, _) | ("allowList", true, _) | ("credentialID", false, _) => vec!["Descriptor", "DescriptorRef"],
        ("pubKeyCredParams", false, _) => vec!["FilteredParameters"],
        ("pubKeyCredParams", true, _) => vec!["Parameters"],
        ("options", false, _) => vec!["AuthenticatorOptions", "CtapOptions"],
        ("extensions", false, _) => {
            if cmd == 0x01 {
                vec!["McExtensions", "GaExtensionsOutput"]
            } else {
                vec!["GaExtensionsInput", "GaExtensionsOutput"]
            }
        }
        ("ext.hmac-secret", false, Ty::Map(_)) => vec!["HmacSecretInput"],
        ("attestationFormatsPreference", false, _) => vec!["AttestationFormatsPreference"],
        ("attestationFormatsPreference", true, _) => vec!["AttestationStatementFormat", "Version", "Extension", "Transport"],
        (_, _, Ty::CoseEcdh) => vec!["CoseEcdh", "CosePublicKey", "CoseP256", "CoseEd25519"],
        ("subCommandParams", false, _) => vec!["CredMgmtParams"],
        ("subCommand", false, _) => vec!["CredMgmtSubcommand", "PinV1Subcommand", "CredProtectPolicy"],
        ("ext.credProtect", false, _) => vec!["CredProtectPolicy"],
        _ => vec![],
    }
}

fn request_type_for(cmd: u8) -> Option<&'static str> {
    Some(match cmd {
        0x01 => "McRequest",
        0x02 => "GaRequest",
        0x06 => "ClientPinRequest",
        0x0A | 0x41 => "CredMgmtRequest",
        0x0C => "LargeBlobsRequest",
        _ => return None,
    })
}

/// Host-side values shaped like the response-side decodable types (GetInfo etc.), with type noise.
fn response_like(rng: &mut Rng) -> (&'static str, V) {
    let noise = |rng: &mut Rng, v: V| -> V {
        if rng.chance(1, 6) {
            match rng.below(7) {
                0 => V::U(rng.next() >> rng.below(64)),
                1 => V::N(rng.next() >> rng.below(64)),
                2 => V::B(rng.bytes(3)),
                3 => t("x"),
                4 => V::A(vec![]),
                5 => V::M(vec![]),
                _ => V::Null,
            }
        } else {
            v
        }
    };
    let pick_text = |rng: &mut Rng, names: &[&str]| -> V {
        let base = *rng.pick(names);
        match rng.below(10) {
            0 => t(&base.to_uppercase()),
            1 => t(&base[..base.len() - 1]),
            2 => t(&format!("{}x", base)),
            3 => t(""),
            4 => {
                // a multi-byte character at any position of a known name
                let k = rng.usize_below(base.len() + 1);
                let ch = ["é", "€", "😀"][rng.usize_below(3)];
                t(&format!("{}{}{}", &base[..k], ch, &base[k..]))
            }
            5 => {
                let n = rng.usize_below(24);
                V::T(schema::utf8_text(rng, n))
            }
            _ => t(base),
        }
    };
    let versions = ["FIDO_2_0", "FIDO_2_1", "FIDO_2_1_PRE", "U2F_V2"];
    let exts = ["credProtect", "hmac-secret", "largeBlobKey", "thirdPartyPayment"];
    let transports = ["nfc", "usb", "ble"];
    let opt_names = [
        "ep", "rk", "up", "uv", "plat", "uvAcfg", "alwaysUv", "credMgmt", "authnrCfg", "bioEnroll", "clientPin", "largeBlobs",
        "uvBioEnroll", "setMinPINLength", "pinUvAuthToken", "makeCredUvNotRqd", "credentialMgmtPreview", "userVerificationMgmtPreview",
        "noMcGaPermissionsWithClientPin",
    ];
    let ctap_options = |rng: &mut Rng| -> V {
        let mut m = vec![(t("rk"), V::Bool(rng.coin())), (t("up"), V::Bool(rng.coin()))];
        for n in opt_names.iter() {
            if *n != "rk" && *n != "up" && rng.chance(1, 3) {
                m.push((t(n), V::Bool(rng.coin())));
            }
        }
        if rng.chance(7, 8) {
            cbor::sort_canonical(&mut m);
        }
        V::M(m)
    };
    match rng.below(10) {
        0 => ("Version", pick_text(rng, &versions)),
        1 => ("Extension", pick_text(rng, &exts)),
        2 => ("Transport", pick_text(rng, &transports)),
        3 => ("CtapOptions", ctap_options(rng)),
        4 => {
            let mut m = vec![
                (int(1), V::A((0..rng.usize_below(6)).map(|_| pick_text(rng, &versions)).collect())),
                (int(3), {
                    let n = if rng.chance(7, 8) { 16 } else { 17 };
                    V::B(rng.bytes(n))
                }),
            ];
            let mut opt = |rng: &mut Rng, k: i64, v: V| {
                if rng.coin() {
                    let v = noise(rng, v);
                    m.push((int(k), v));
                }
            };
            let e = V::A((0..rng.usize_below(6)).map(|_| pick_text(rng, &exts)).collect());
            opt(rng, 2, e);
            let o = ctap_options(rng);
            opt(rng, 4, o);
            let u = V::U(rng.next() >> rng.below(64));
            opt(rng, 5, u);
            let pp = V::A((0..rng.usize_below(4)).map(|_| V::U(rng.below(3))).collect());
            opt(rng, 6, pp);
            opt(rng, 7, V::U(10));
            opt(rng, 8, V::U(255));
            let tr = V::A((0..rng.usize_below(6)).map(|_| pick_text(rng, &transports)).collect());
            opt(rng, 9, tr);
            let algs = V::A(
                (0..rng.usize_below(5))
                    .map(|_| V::M(vec![(t("alg"), int(*rng.pick(&[-7i64, -8, -257, 5]))), (t("type"), t("public-key"))]))
                    .collect(),
            );
            opt(rng, 10, algs);
            opt(rng, 11, V::U(1024));
            opt(rng, 12, V::Bool(true));
            opt(rng, 13, V::U(4));
            opt(rng, 14, V::U(5));
            opt(rng, 15, V::U(32));
            opt(rng, 16, V::U(0));
            opt(rng, 17, V::U(1));
            opt(rng, 18, V::U(2));
            let certs = V::M(vec![(t("FIPS-CMVP-2"), V::U(1)), (t("CC-EAL"), V::U(4)), (t("FIDO"), V::U(300))]);
            opt(rng, 19, certs);
            opt(rng, 20, V::U(7));
            opt(rng, 21, V::U(0));
            let fm = V::A(vec![t("packed"), t("none"), t("tpm")]);
            opt(rng, 22, fm);
            opt(rng, 23, V::U(1));
            opt(rng, 24, V::Bool(false));
            opt(rng, 25, V::U(0));
            cbor::sort_canonical(&mut m);
            ("GetInfoResponse", V::M(m))
        }
        5 => {
            let mut m = Vec::new();
            if rng.coin() {
                m.push((int(1), schema::cose_ecdh(rng, GenMode::Random)));
            }
            if rng.coin() {
                let n = *rng.pick(&[0usize, 16, 32, 48, 49]);
                m.push((int(2), V::B(rng.bytes(n))));
            }
            if rng.coin() {
                m.push((int(3), V::U(rng.below(300))));
            }
            if rng.coin() {
                m.push((int(4), V::Bool(rng.coin())));
            }
            if rng.coin() {
                m.push((int(5), V::U(rng.below(300))));
            }
            ("ClientPinResponse", V::M(m))
        }
        6 => {
            let n = *rng.pick(&[0usize, 1, 17, 3008, 3009]);
            ("LargeBlobsResponse", V::M(vec![(int(1), V::B(rng.bytes(n)))]))
        }
        7 => {
            let n = *rng.pick(&[0usize, 32, 64, 80, 81]);
            let mut m = vec![(t("hmac-secret"), V::B(rng.bytes(n)))];
            if rng.coin() {
                m.push((t("thirdPartyPayment"), V::Bool(true)));
            }
            ("GaExtensionsOutput", V::M(m))
        }
        8 => ("GaUnsignedExtensionOutputs", V::M(if rng.coin() { vec![] } else { vec![(t("x"), V::U(1))] })),
        _ => {
            let names = ["FIPS-CMVP-2", "FIPS-CMVP-3", "FIPS-CMVP-2-PHY", "FIPS-CMVP-3-PHY", "CC-EAL", "FIDO"];
            let mut m = Vec::new();
            for n in names {
                if rng.coin() {
                    m.push((t(n), V::U(rng.below(300))));
                }
            }
            ("Certifications", V::M(m))
        }
    }
}

fn deliver(delivered: Vec<u8>, class: String, desc: String) -> Step {
    Step::Deliver { delivered, expect: DeliverExpect::None, class, site: String::new(), desc }
}

pub fn gen(seed: u64, run: u64, tier: &str) -> Vec<Step> {
    if tier == "thorough" && run < SWEEP_RUNS {
        return sweep_steps(run);
    }
    if run % SOAK_EVERY == 7 {
        return soak_steps(seed, run, tier == "selfcheck");
    }
    let mut rng = Rng::new(seed, run, 4);
    let cfg = cfg_for(&mut rng, run);
    let nested_names = crate::real::nested_type_names();
    let mut steps = Vec::new();
    let mut prev: Vec<u8> = Vec::new();
    for _x in 0..cfg.exchanges {
        let cmd = pick_cmd(&mut rng);
        let mut tags: Vec<String> = Vec::new();
        let mut desc = format!("cmd 0x{:02x}", cmd);
        let schema: Option<MapSchema> = schema::schema_for(cmd).or_else(|| if rng.coin() { schema::schema_for(*rng.pick(&PARAM_CMDS)) } else { None });
        let mut nested: Vec<Step> = Vec::new();
        let mut bytes = vec![cmd];
        if let Some(schema) = &schema {
            let mode = match (cfg.mode_bias, rng.below(4)) {
                (0, 0) => GenMode::Max,
                (1, 0) => GenMode::Min,
                _ => GenMode::Random,
            };
            let mut root = schema::gen_map(schema, &mut rng, mode);
            // fault-free half of the exchanges (by default); structure fault otherwise
            let faulty = !cfg.fault_free && rng.coin();
            if faulty && rng.below(8) < cfg.p_struct_num {
                let (r2, sf) = faults::structure_fault(schema, &root, &mut rng);
                if sf.kind != "none" {
                    tags.push(format!("structure_{}", sf.kind));
                    if sf.kind.starts_with("nest") {
                        // "nested N deep" -> probe for the deepest class
                        if let Some(d) = sf.desc.split("nest").nth(1).and_then(|x| x.split_whitespace().find_map(|w| w.parse::<usize>().ok())) {
                            if d >= 7000 {
                                tags.push("structure_nest_deep_ge_7000".into());
                            }
                        }
                    }
                    desc.push_str(&format!("; {}", sf.desc));
                    root = r2;
                }
            }
            cbor::enc_into(&mut bytes, &root);
            bytes.truncate(MAX_MSG);
            let spans = top_level_map_spans(&root);
            if faulty {
                let k = rng.below(cfg.max_link_faults + 1);
                for _ in 0..k {
                    if let Some(f) = faults::random_link_fault(&mut rng, &bytes, &prev, cfg.link_mask) {
                        if let LinkFault::Truncate(at) = &f {
                            let at = *at % bytes.len().max(1);
                            if spans.iter().any(|(a, b)| at > *a && at < *b) {
                                tags.push("truncation_inside_nested_map".into());
                            }
                        }
                        tags.push(format!("link_{}", f.kind()));
                        desc.push_str(&format!("; {}", f.show()));
                        f.apply(&mut bytes);
                    }
                }
            }
            if tags.is_empty() {
                tags.push("fault_free_exchange".into());
                // over-long names / icons in a fault-free message: the documented lossy result must come back
                let mut sent = Vec::new();
                for st in schema::walk(schema, &root) {
                    if matches!(st.name.as_str(), "rp.name" | "user.name" | "user.displayName" | "user.icon") {
                        if let Some(V::T(b)) = get(&root, &st.path) {
                            if std::str::from_utf8(b).is_ok() {
                                sent.push((st.name.clone(), b.clone()));
                            }
                        }
                    }
                }
                if !sent.is_empty() && schema::schema_for(cmd).is_some() {
                    nested.push(Step::LossyCheck { delivered: bytes.clone(), sent });
                }
            }
            // nested decoders: the whole payload as the command's request struct, and natural sub-values
            if let Some(rt) = request_type_for(cmd) {
                nested.push(Step::DeliverNested { ty: rt.into(), payload: bytes[1.min(bytes.len())..].to_vec(), desc: format!("payload of {}", desc) });
            }
            let sites = schema::walk(schema, &root);
            let cands: Vec<(&Site, Vec<&'static str>)> = sites.iter().map(|s| (s, nested_types_for(s, cmd))).filter(|(_, v)| !v.is_empty()).collect();
            if !cands.is_empty() {
                for _ in 0..2 {
                    let (site, tys) = rng.pick(&cands);
                    if let Some(sub) = get(&root, &site.path) {
                        let mut sb = enc(sub);
                        sb.truncate(MAX_MSG);
                        let mut nd = format!("sub-value {}", site.name);
                        if !cfg.fault_free && rng.coin() {
                            if let Some(f) = faults::random_link_fault(&mut rng, &sb, &prev, cfg.link_mask | 1) {
                                nd.push_str(&format!("; {}", f.show()));
                                f.apply(&mut sb);
                            }
                        }
                        let ty = *rng.pick(tys);
                        nested.push(Step::DeliverNested { ty: ty.into(), payload: sb, desc: nd });
                    }
                }
            }
        } else {
            // parameter-less / vendor / unassigned command with arbitrary trailing bytes
            let n = match rng.below(4) {
                0 => 0,
                1 => rng.usize_below(8),
                2 => rng.usize_below(300),
                _ => rng.usize_below(MAX_MSG),
            };
            bytes.extend_from_slice(&rng.bytes(n));
            bytes.truncate(MAX_MSG);
            tags.push("raw_payload".into());
        }
        // response-shaped types and a cross-type offer
        if rng.chance(1, 3) {
            let (ty, v) = response_like(&mut rng);
            let mut b = enc(&v);
            let mut nd = format!("response-shaped value for {}", ty);
            if !cfg.fault_free && rng.coin() {
                if let Some(f) = faults::random_link_fault(&mut rng, &b, &prev, cfg.link_mask | 1) {
                    nd.push_str(&format!("; {}", f.show()));
                    f.apply(&mut b);
                }
            }
            if nested_names.contains(&ty) {
                nested.push(Step::DeliverNested { ty: ty.into(), payload: b, desc: nd });
            }
        }
        if rng.chance(1, 4) && bytes.len() > 1 {
            let ty = *rng.pick(&nested_names);
            nested.push(Step::DeliverNested { ty: ty.into(), payload: bytes[1..].to_vec(), desc: format!("cross-type offer of payload of {}", desc) });
        }
        prev = bytes.clone();
        steps.push(deliver(bytes, tags.join(","), desc));
        steps.extend(nested);
    }
    // messages of this session delivered again after everything else: the answer is the one given the first time
    let earlier: Vec<(Vec<u8>, String)> = steps
        .iter()
        .filter_map(|s| match s {
            Step::Deliver { delivered, desc, .. } => Some((delivered.clone(), desc.clone())),
            _ => None,
        })
        .collect();
    if !earlier.is_empty() {
        for _ in 0..3.min(earlier.len()) {
            let (b, d) = rng.pick(&earlier).clone();
            // a corrupted copy of the same length arrives first (bytes exchanged, the same bit hit twice, one
            // bit hit), then the retransmission of the message itself
            if b.len() >= 2 {
                let mut sib = b.clone();
                let (i, j, k) = (rng.usize_below(sib.len()), rng.usize_below(sib.len()), rng.below(8) as u8);
                let how = match rng.below(3) {
                    0 => {
                        sib.swap(i, j);
                        "bytes exchanged"
                    }
                    1 => {
                        sib[i] ^= 1 << k;
                        if i != j {
                            sib[j] ^= 1 << k;
                        }
                        "the same bit flipped at two offsets"
                    }
                    _ => {
                        sib[i] ^= 1 << k;
                        "one bit flipped"
                    }
                };
                steps.push(deliver(sib, "corrupted_copy".into(), format!("corrupted copy ({} at {} / {}) of [{}]", how, i, j, d)));
            }
            steps.push(deliver(b, "redelivered".into(), format!("redelivery of [{}]", d)));
        }
    }
    // once faults stop, the very next request is served, and served identically
    let cmd = *rng.pick(&PARAM_CMDS);
    let sc = schema::schema_for(cmd).unwrap();
    let root = schema::gen_map(&sc, &mut rng, GenMode::Random);
    let mut b = vec![cmd];
    cbor::enc_into(&mut b, &root);
    steps.push(deliver(b, "recovery".into(), format!("fault-free request after the session, cmd 0x{:02x}", cmd)));
    steps
}

/// One run in SOAK_EVERY is a soak: a device that is never restarted is sent the same rejected message, and
/// then the same accepted message, more often than an 8- or 16-bit counter can count.
const SOAK_EVERY: u64 = 2048;

fn soak_steps(seed: u64, run: u64, short: bool) -> Vec<Step> {
    let mut rng = Rng::new(seed, run, 41);
    let mut n = *rng.pick(&[300u64, 65_540, 65_540, 70_001]);
    if short {
        n = 40; // the selfcheck tier is also what Miri interprets
    }
    let cmd = *rng.pick(&PARAM_CMDS);
    let sc = schema::schema_for(cmd).unwrap();
    let root = schema::gen_map(&sc, &mut rng, GenMode::Min);
    let mut ok = vec![cmd];
    cbor::enc_into(&mut ok, &root);
    // rejected: the same message cut short, or a command byte nobody assigned, or a wrong-typed parameter map
    let bad: Vec<u8> = match rng.below(3) {
        0 => ok[..1 + rng.usize_below(ok.len().max(2) - 1)].to_vec(),
        1 => vec![0x5f, 0xa0],
        _ => vec![cmd, 0x80],
    };
    vec![
        Step::Deliver { delivered: bad, expect: DeliverExpect::None, class: format!("soak:{}", n), site: "rejected".into(), desc: format!("soak: the same rejected message {} times", n) },
        Step::Deliver { delivered: ok, expect: DeliverExpect::None, class: format!("soak:{}", n), site: "accepted".into(), desc: format!("soak: the same well-formed cmd 0x{:02x} message {} times", cmd, n) },
    ]
}

/// Deliver `bytes` n times; every result must equal the first. Err((delivery index, what, panicked)).
pub fn soak(bytes: &[u8], n: u64) -> Result<String, (u64, String, bool)> {
    use ctap_types::ctap2::Request;
    let k = std::cell::Cell::new(0u64);
    let r = crate::guard::guard(|| {
        let first = Request::deserialize(bytes);
        k.set(1);
        for i in 1..n {
            k.set(i + 1);
            let again = Request::deserialize(bytes);
            if again != first {
                return Err(format!("answered {:?} the first time and {:?} now", first.as_ref().map(|_| "Ok").map_err(|e| *e as u8), again.as_ref().map(|_| "Ok").map_err(|e| *e as u8)));
            }
        }
        Ok(match &first {
            Ok(_) => "Ok".to_string(),
            Err(e) => format!("Err(0x{:02x})", *e as u8),
        })
    });
    match r {
        Ok(Ok(s)) => Ok(s),
        Ok(Err(what)) => Err((k.get(), what, false)),
        Err(p) => Err((k.get(), p, true)),
    }
}

fn sweep_steps(run: u64) -> Vec<Step> {
    // run 0..3: all strings of length 0, 1, 2; then 256 prefixes of length 1 (length 3);
    // then, for the six parameter-bearing command bytes, 256 prefixes [cmd, x] (length 4)
    let (prefix, len): (Vec<u8>, usize) = if run < 3 {
        (vec![], run as usize)
    } else if run < 3 + 256 {
        (vec![(run - 3) as u8], 3)
    } else {
        let r = run - 3 - 256;
        (vec![PARAM_CMDS[(r / 256) as usize], (r % 256) as u8], 4)
    };
    vec![Step::Deliver {
        delivered: prefix.clone(),
        expect: DeliverExpect::None,
        class: format!("sweep:{}", len),
        site: String::new(),
        desc: format!("every byte string of length {} with prefix {}", len, json::hex(&prefix)),
    }]
}

/// Enumerate all strings of `len` bytes starting with `prefix`; decode each twice and compare.
/// Returns Err((bytes, what)) on the first failure; Ok(hash of all outcomes, count).
pub fn sweep(prefix: &[u8], len: usize) -> Result<(u64, u64), (Vec<u8>, String, bool)> {
    use ctap_types::ctap2::Request;
    let free = len - prefix.len();
    let total: u64 = 1u64 << (8 * free);
    let mut buf = prefix.to_vec();
    buf.resize(len, 0);
    let mut h = Fnv::new();
    for i in 0..total {
        for j in 0..free {
            buf[prefix.len() + j] = (i >> (8 * (free - 1 - j))) as u8;
        }
        let r = crate::guard::guard(|| {
            let a = Request::deserialize(&buf);
            let b = Request::deserialize(&buf);
            let same = a == b;
            let code: u16 = match &a {
                Ok(_) => 0x100,
                Err(e) => *e as u8 as u16,
            };
            (same, code)
        });
        match r {
            Ok((true, code)) => h.write(&code.to_le_bytes()),
            Ok((false, _)) => return Err((buf.clone(), "two decodes of the same bytes differ".into(), false)),
            Err(p) => return Err((buf.clone(), p, true)),
        }
    }
    Ok((h.0, total))
}

pub fn account(step: &Step, outcome: &str, stats: &mut Stats) {
    match step {
        Step::Deliver { class, delivered, desc, .. } => {
            if let Some(rest) = class.strip_prefix("sweep:") {
                let n: u64 = outcome.strip_prefix("sweep-ok:").and_then(|x| x.parse().ok()).unwrap_or(0);
                stats.evaluations += n;
                stats.real_calls += 2 * n;
                stats.probe_n(&format!("exhaustive_short_inputs_len{}", rest), n);
                return;
            }
            if class.starts_with("soak:") {
                let n: u64 = outcome.strip_prefix("soak-ok:").and_then(|x| x.parse().ok()).unwrap_or(0);
                stats.evaluations += 1;
                stats.real_calls += n;
                stats.probe(if desc.contains("rejected") { "soak_rejected" } else { "soak_accepted" });
                stats.probe_n("soak_deliveries", n);
                return;
            }
            stats.evaluations += 1;
            stats.real_calls += 3;
            let ok = outcome.starts_with("Ok");
            stats.probe(if ok { "decode_ok" } else { "decode_err" });
            let oc = &outcome[..outcome.find(',').unwrap_or(outcome.len())];
            stats.outcome(oc);
            let cmd = delivered.first().map(|b| format!("{:02x}", b)).unwrap_or_else(|| "--".into());
            for tag in class.split(',') {
                if tag.is_empty() {
                    continue;
                }
                if let Some(k) = tag.strip_prefix("link_") {
                    stats.fault(k);
                } else if let Some(k) = tag.strip_prefix("structure_") {
                    if k.starts_with("nest_deep") {
                        stats.probe(tag);
                    } else {
                        stats.fault(&format!("structure:{}", k));
                        match k {
                            "grow" => stats.probe("structure_grow"),
                            "straddle" => stats.probe("structure_straddle"),
                            _ => {}
                        }
                    }
                } else if tag == "recovery" {
                    stats.probe("recovery_checked");
                } else {
                    stats.probe(tag);
                }
            }
            stats.distinct(&[&cmd, class, oc]);
            if stats.evaluations % 4999 == 1 {
                stats.sample(obj(vec![
                    ("class", s(class.clone())),
                    ("desc", s(desc.chars().take(300).collect::<String>())),
                    ("delivered_len", json::i(delivered.len())),
                    ("delivered_hex_prefix", s(json::hex(&delivered[..delivered.len().min(64)]))),
                    ("outcome", s(outcome)),
                ]));
            }
        }
        Step::LossyCheck { .. } => {
            stats.evaluations += 1;
            stats.real_calls += 1;
            if outcome == "lossy-overlong" {
                stats.probe("overlong_lossy_member_checked");
            }
        }
        Step::DeliverNested { ty, .. } => {
            stats.evaluations += 1;
            stats.real_calls += 2;
            let ok = outcome.starts_with("nested-ok");
            stats.probe(if ok { "nested_ok" } else { "nested_err" });
            stats.distinct(&["nested", ty, if ok { "ok" } else { "err" }]);
        }
        _ => {}
    }
}

#[allow(dead_code)]
pub fn unused(_: J) {}
