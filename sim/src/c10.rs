//! C10 — each request reaches exactly the authenticator method for its command, once.
//!
//! Host message -> real decoder -> real dispatcher (`call_ctap2` / `call_ctap1` and the
//! blanket `Rpc::call`) -> scripted authenticator (second party) whose every handler
//! records the call and then succeeds with a value unique to that call, or fails with
//! a scripted status. The oracle is a history check over the call log.

use crate::cbor;
use crate::core::Stats;
use crate::guard::guard;
use crate::json::{self, obj, s, J};
use crate::prng::Rng;
use crate::schema::{self, GenMode};
use crate::trace::{Device, Finding, Log, Step};
use ctap_types::ctap2::{self, VendorOperation};
use ctap_types::{ctap1, Bytes};

pub const REQUIRED_PROBES: [&str; 9] = [
    "handler_failed_status_propagated",
    "handler_succeeded_value_returned",
    "get_info_under_failing_script",
    "ctap1_version_under_failing_script",
    "large_blobs_without_override",
    "large_blobs_with_override",
    "vendor_all_62_codes",
    "ctap1_register",
    "ctap1_authenticate",
];

/// Every status the CTAP2 error type can express (a handler is another party's program: it may
/// fail with any of them, including the odd ones such as `Success`).
pub const CTAP2_STATUSES: [ctap2::Error; 55] = [
    ctap2::Error::Success,
    ctap2::Error::InvalidCommand,
    ctap2::Error::InvalidParameter,
    ctap2::Error::InvalidLength,
    ctap2::Error::InvalidSeq,
    ctap2::Error::Timeout,
    ctap2::Error::ChannelBusy,
    ctap2::Error::LockRequired,
    ctap2::Error::InvalidChannel,
    ctap2::Error::CborUnexpectedType,
    ctap2::Error::InvalidCbor,
    ctap2::Error::MissingParameter,
    ctap2::Error::LimitExceeded,
    ctap2::Error::UnsupportedExtension,
    ctap2::Error::FingerprintDatabaseFull,
    ctap2::Error::LargeBlobStorageFull,
    ctap2::Error::CredentialExcluded,
    ctap2::Error::Processing,
    ctap2::Error::InvalidCredential,
    ctap2::Error::UserActionPending,
    ctap2::Error::OperationPending,
    ctap2::Error::NoOperations,
    ctap2::Error::UnsupportedAlgorithm,
    ctap2::Error::OperationDenied,
    ctap2::Error::KeyStoreFull,
    ctap2::Error::NotBusy,
    ctap2::Error::NoOperationPending,
    ctap2::Error::UnsupportedOption,
    ctap2::Error::InvalidOption,
    ctap2::Error::KeepaliveCancel,
    ctap2::Error::NoCredentials,
    ctap2::Error::UserActionTimeout,
    ctap2::Error::NotAllowed,
    ctap2::Error::PinInvalid,
    ctap2::Error::PinBlocked,
    ctap2::Error::PinAuthInvalid,
    ctap2::Error::PinAuthBlocked,
    ctap2::Error::PinNotSet,
    ctap2::Error::PinRequired,
    ctap2::Error::PinPolicyViolation,
    ctap2::Error::PinTokenExpired,
    ctap2::Error::RequestTooLarge,
    ctap2::Error::ActionTimeout,
    ctap2::Error::UpRequired,
    ctap2::Error::UvBlocked,
    ctap2::Error::IntegrityFailure,
    ctap2::Error::InvalidSubcommand,
    ctap2::Error::UvInvalid,
    ctap2::Error::UnauthorizedPermission,
    ctap2::Error::Other,
    ctap2::Error::SpecLast,
    ctap2::Error::ExtensionFirst,
    ctap2::Error::ExtensionLast,
    ctap2::Error::VendorFirst,
    ctap2::Error::VendorLast,
];

pub const CTAP1_STATUSES: [ctap1::Error; 51] = [
    ctap1::Error::Success,
    ctap1::Error::DataUnchangedWarning,
    ctap1::Error::CorruptedData,
    ctap1::Error::UnexpectedEof,
    ctap1::Error::SelectFileDeactivated,
    ctap1::Error::FileControlInfoBadlyFormatted,
    ctap1::Error::SelectedFileInTerminationState,
    ctap1::Error::NoInputDataFromSensor,
    ctap1::Error::VerificationFailed,
    ctap1::Error::FilledByLastWrite,
    ctap1::Error::UnspecifiedNonpersistentExecutionError,
    ctap1::Error::ImmediateResponseRequired,
    ctap1::Error::UnspecifiedPersistentExecutionError,
    ctap1::Error::MemoryFailure,
    ctap1::Error::WrongLength,
    ctap1::Error::ClaNotSupported,
    ctap1::Error::LogicalChannelNotSupported,
    ctap1::Error::SecureMessagingNotSupported,
    ctap1::Error::LastCommandOfChainExpected,
    ctap1::Error::CommandChainingNotSupported,
    ctap1::Error::CommandNotAllowed,
    ctap1::Error::CommandIncompatibleFileStructure,
    ctap1::Error::SecurityStatusNotSatisfied,
    ctap1::Error::OperationBlocked,
    ctap1::Error::ReferenceDataNotUsable,
    ctap1::Error::ConditionsOfUseNotSatisfied,
    ctap1::Error::CommandNotAllowedNoEf,
    ctap1::Error::ExectedSecureMessagingDataObjectsMissing,
    ctap1::Error::IncorrectSecureMessagingDataObjects,
    ctap1::Error::WrongParametersNoInfo,
    ctap1::Error::IncorrectDataParameter,
    ctap1::Error::FunctionNotSupported,
    ctap1::Error::NotFound,
    ctap1::Error::RecordNotFound,
    ctap1::Error::NotEnoughMemory,
    ctap1::Error::NcInconsistentWithTlv,
    ctap1::Error::IncorrectP1OrP2Parameter,
    ctap1::Error::NcInconsistentWithP1p2,
    ctap1::Error::KeyReferenceNotFound,
    ctap1::Error::FileAlreadyExists,
    ctap1::Error::DfNameAlreadyExists,
    ctap1::Error::WrongParameters,
    ctap1::Error::InstructionNotSupportedOrInvalid,
    ctap1::Error::ClassNotSupported,
    ctap1::Error::UnspecifiedCheckingError,
    ctap1::Error::MoreAvailable(0),
    ctap1::Error::MoreAvailable(255),
    ctap1::Error::WarningTriggering(2),
    ctap1::Error::RemainingRetries(3),
    ctap1::Error::ErrorTriggering(2),
    ctap1::Error::WrongLeField(7),
];

pub const VERSION_MARKER: [u8; 6] = *b"SIMV_1";

/// One recorded call: (handler id, Debug rendering of the parameters the handler was given).
pub type CallLog = Vec<(&'static str, String)>;

/// The scripted authenticator. `LB` = whether it implements the large-blobs extension.
pub struct Mock<const LB: bool> {
    pub log: CallLog,
    /// incremented by every handler invocation; successful responses carry the value
    pub counter: u32,
    /// 0 = handlers succeed, k = handlers fail with status k-1 of the protocol's list
    pub script: u8,
    /// the complete response value the last successful handler returned
    pub last: Option<ctap2::Response>,
    pub last1: Option<ctap1::Response>,
}

/// A fully populated CTAP1 response determined by the call counter.
fn rich1(kind: u8, c: u32) -> ctap1::Response {
    let mut rng = crate::prng::Rng::new(c as u64, kind as u64, 34);
    let spec = crate::c09::U2fSpec {
        kind,
        header: rng.next() as u8,
        kh_len: rng.usize_below(256),
        cert_len: rng.usize_below(1025),
        sig_len: rng.usize_below(73),
        count: c,
        pk_len: rng.usize_below(66),
        fill: c as u64 ^ (rng.next() << 20),
        cap: 0,
        prefill: 0,
        keep_previous: false,
    };
    crate::c09::build(&spec).0
}

/// A fully populated response of the given kind whose content is determined by the call counter:
/// the dispatcher must hand back exactly this value, every member included.
fn rich(kind: u8, c: u32) -> ctap2::Response {
    let mut rng = crate::prng::Rng::new(c as u64, kind as u64, 33);
    let mut spec = crate::c17::random_spec(&mut rng, kind as u64 + 10 * (1 + (c as u64 % 5)));
    spec.fill = c as u64;
    crate::c17::build(&spec)
}

impl<const LB: bool> Mock<LB> {
    pub fn new() -> Self {
        Mock { log: Vec::new(), counter: 1000, script: 0, last: None, last1: None }
    }
    fn enter(&mut self, id: &'static str, params: String) -> u32 {
        self.counter = self.counter.wrapping_add(1);
        self.log.push((id, params));
        self.counter
    }
    fn fail2<T>(&self) -> Option<ctap2::Result<T>> {
        if self.script == 0 {
            None
        } else {
            Some(Err(CTAP2_STATUSES[(self.script as usize - 1) % CTAP2_STATUSES.len()]))
        }
    }
    fn fail1<T>(&self) -> Option<ctap1::Result<T>> {
        if self.script == 0 {
            None
        } else {
            Some(Err(CTAP1_STATUSES[(self.script as usize - 1) % CTAP1_STATUSES.len()]))
        }
    }
}

fn ga_response(c: u32) -> ctap2::get_assertion::Response {
    ctap2::get_assertion::ResponseBuilder {
        credential: ctap_types::webauthn::PublicKeyCredentialDescriptor { id: Bytes::from_slice(&c.to_be_bytes()).unwrap(), key_type: ctap_types::String::from("public-key") },
        auth_data: Bytes::new(),
        signature: Bytes::new(),
    }
    .build()
}

fn lb_response(c: u32) -> ctap2::large_blobs::Response {
    let mut r = ctap2::large_blobs::Response::default();
    // carries the call counter when the fragment type has room for it (feature large-blobs)
    r.config = Bytes::from_slice(&c.to_be_bytes()).ok().or_else(|| Some(Bytes::new()));
    r
}

macro_rules! common_ctap2 {
    () => {
        fn get_info(&mut self) -> ctap2::get_info::Response {
            let c = self.enter("get_info", String::new());
            let full = rich(0, c);
            self.last = Some(full.clone());
            match full {
                ctap2::Response::GetInfo(r) => r,
                _ => unreachable!(),
            }
        }
        fn make_credential(&mut self, request: &ctap2::make_credential::Request) -> ctap2::Result<ctap2::make_credential::Response> {
            let c = self.enter("make_credential", format!("{:?}", request));
            if let Some(e) = self.fail2() {
                return e;
            }
            let full = rich(1, c);
            self.last = Some(full.clone());
            match full {
                ctap2::Response::MakeCredential(r) => Ok(r),
                _ => unreachable!(),
            }
        }
        fn get_assertion(&mut self, request: &ctap2::get_assertion::Request) -> ctap2::Result<ctap2::get_assertion::Response> {
            let c = self.enter("get_assertion", format!("{:?}", request));
            if let Some(e) = self.fail2() {
                return e;
            }
            let full = rich(2, c);
            self.last = Some(full.clone());
            match full {
                ctap2::Response::GetAssertion(r) => Ok(r),
                _ => unreachable!(),
            }
        }
        fn get_next_assertion(&mut self) -> ctap2::Result<ctap2::get_assertion::Response> {
            let c = self.enter("get_next_assertion", String::new());
            if let Some(e) = self.fail2() {
                return e;
            }
            let full = rich(3, c);
            self.last = Some(full.clone());
            match full {
                ctap2::Response::GetNextAssertion(r) => Ok(r),
                _ => unreachable!(),
            }
        }
        fn reset(&mut self) -> ctap2::Result<()> {
            self.enter("reset", String::new());
            if let Some(e) = self.fail2() {
                return e;
            }
            self.last = Some(ctap2::Response::Reset);
            Ok(())
        }
        fn client_pin(&mut self, request: &ctap2::client_pin::Request) -> ctap2::Result<ctap2::client_pin::Response> {
            let c = self.enter("client_pin", format!("{:?}", request));
            if let Some(e) = self.fail2() {
                return e;
            }
            let full = rich(4, c);
            self.last = Some(full.clone());
            match full {
                ctap2::Response::ClientPin(r) => Ok(r),
                _ => unreachable!(),
            }
        }
        fn credential_management(&mut self, request: &ctap2::credential_management::Request) -> ctap2::Result<ctap2::credential_management::Response> {
            let c = self.enter("credential_management", format!("{:?}", request));
            if let Some(e) = self.fail2() {
                return e;
            }
            let full = rich(5, c);
            self.last = Some(full.clone());
            match full {
                ctap2::Response::CredentialManagement(r) => Ok(r),
                _ => unreachable!(),
            }
        }
        fn selection(&mut self) -> ctap2::Result<()> {
            self.enter("selection", String::new());
            if let Some(e) = self.fail2() {
                return e;
            }
            self.last = Some(ctap2::Response::Selection);
            Ok(())
        }
        fn vendor(&mut self, op: VendorOperation) -> ctap2::Result<()> {
            self.enter("vendor", format!("{}", u8::from(op)));
            if let Some(e) = self.fail2() {
                return e;
            }
            self.last = Some(ctap2::Response::Vendor);
            Ok(())
        }
    };
}

impl ctap2::Authenticator for Mock<false> {
    common_ctap2!();
}

impl ctap2::Authenticator for Mock<true> {
    common_ctap2!();
    fn large_blobs(&mut self, request: &ctap2::large_blobs::Request) -> ctap2::Result<ctap2::large_blobs::Response> {
        let c = self.enter("large_blobs", format!("{:?}", request));
        if let Some(e) = self.fail2() {
            return e;
        }
        let full = rich(6, c);
        self.last = Some(full.clone());
        match full {
            ctap2::Response::LargeBlobs(r) => Ok(r),
            _ => unreachable!(),
        }
    }
}

impl<const LB: bool> ctap1::Authenticator for Mock<LB> {
    fn register(&mut self, request: &ctap1::register::Request<'_>) -> ctap1::Result<ctap1::register::Response> {
        let c = self.enter("register", format!("{:?}", request));
        if let Some(e) = self.fail1() {
            return e;
        }
        let full = rich1((c % 2) as u8, c);
        self.last1 = Some(full.clone());
        match full {
            ctap1::Response::Register(r) => Ok(r),
            _ => unreachable!(),
        }
    }
    fn authenticate(&mut self, request: &ctap1::authenticate::Request<'_>) -> ctap1::Result<ctap1::authenticate::Response> {
        let c = self.enter("authenticate", format!("{:?}", request));
        if let Some(e) = self.fail1() {
            return e;
        }
        let full = rich1(2, c);
        self.last1 = Some(full.clone());
        match full {
            ctap1::Response::Authenticate(r) => Ok(r),
            _ => unreachable!(),
        }
    }
    fn version() -> [u8; 6] {
        VERSION_MARKER
    }
}

/// Four mocks persist across the session: {with, without large blobs} x {protocol entry point, generic Rpc entry point}.
pub struct Mocks {
    pub lb_direct: Mock<true>,
    pub lb_rpc: Mock<true>,
    pub nolb_direct: Mock<false>,
    pub nolb_rpc: Mock<false>,
}

impl Mocks {
    pub fn new() -> Mocks {
        Mocks { lb_direct: Mock::new(), lb_rpc: Mock::new(), nolb_direct: Mock::new(), nolb_rpc: Mock::new() }
    }
}

#[derive(Clone, Debug, PartialEq)]
pub struct DispatchSpec {
    /// 2 = CTAP2 message bytes, 1 = CTAP1 APDU bytes, 12 / 11 = entropy for the crate's `Arbitrary` generators (CTAP2 / CTAP1)
    pub source: u8,
    pub bytes: Vec<u8>,
    /// 0 = handlers succeed; 1..=6 = handlers fail with that status of the protocol's list
    pub script: u8,
    /// authenticator flavour: implements large blobs?
    pub large_blobs: bool,
    pub desc: String,
}

impl DispatchSpec {
    pub fn to_json(&self) -> J {
        obj(vec![
            ("op", s("dispatch")),
            ("source", json::i(self.source)),
            ("script", json::i(self.script)),
            ("large_blobs", J::Bool(self.large_blobs)),
            ("desc", s(self.desc.clone())),
            ("len", json::i(self.bytes.len())),
            ("bytes", s(json::hex(&self.bytes))),
        ])
    }
    pub fn from_json(j: &J) -> Option<DispatchSpec> {
        Some(DispatchSpec {
            source: j.get("source")?.int()? as u8,
            bytes: json::unhex(j.get("bytes")?.str()?)?,
            script: j.get("script")?.int()? as u8,
            large_blobs: j.get("large_blobs")?.bool()?,
            desc: j.get("desc")?.str()?.to_string(),
        })
    }
    pub fn shrinks(&self) -> Vec<DispatchSpec> {
        let mut out = Vec::new();
        if self.script != 0 {
            out.push(DispatchSpec { script: 0, ..self.clone() });
        }
        if self.source >= 11 {
            for b in crate::trace::shrink_bytes(&self.bytes).into_iter().take(40) {
                out.push(DispatchSpec { bytes: b, ..self.clone() });
            }
        }
        out
    }
}

fn finding(rule: &str, detail: String) -> Option<Finding> {
    Some(Finding { rule: rule.into(), detail })
}

/// Host-side command table: which handler a CTAP2 command byte belongs to.
fn handler_for_cmd(b: u8) -> Option<&'static str> {
    Some(match b {
        0x01 => "make_credential",
        0x02 => "get_assertion",
        0x04 => "get_info",
        0x06 => "client_pin",
        0x07 => "reset",
        0x08 => "get_next_assertion",
        0x0A | 0x41 => "credential_management",
        0x0B => "selection",
        0x0C => "large_blobs",
        0x42..=0x7f => "vendor",
        _ => return None,
    })
}

struct Expect2 {
    handler: &'static str,
    params: String,
}

fn expect_for(req: &ctap2::Request) -> Expect2 {
    match req {
        ctap2::Request::MakeCredential(r) => Expect2 { handler: "make_credential", params: format!("{:?}", r) },
        ctap2::Request::GetAssertion(r) => Expect2 { handler: "get_assertion", params: format!("{:?}", r) },
        ctap2::Request::GetNextAssertion => Expect2 { handler: "get_next_assertion", params: String::new() },
        ctap2::Request::GetInfo => Expect2 { handler: "get_info", params: String::new() },
        ctap2::Request::ClientPin(r) => Expect2 { handler: "client_pin", params: format!("{:?}", r) },
        ctap2::Request::Reset => Expect2 { handler: "reset", params: String::new() },
        ctap2::Request::CredentialManagement(r) => Expect2 { handler: "credential_management", params: format!("{:?}", r) },
        ctap2::Request::Selection => Expect2 { handler: "selection", params: String::new() },
        ctap2::Request::LargeBlobs(r) => Expect2 { handler: "large_blobs", params: format!("{:?}", r) },
        ctap2::Request::Vendor(op) => Expect2 { handler: "vendor", params: format!("{}", u8::from(*op)) },
        #[allow(unreachable_patterns)]
        _ => Expect2 { handler: "?", params: String::new() },
    }
}

/// (response variant name, unique value carried by the response if any)
fn unpack2(r: &ctap2::Response) -> (&'static str, Option<u32>) {
    let be = |b: &[u8]| -> Option<u32> { Some(u32::from_be_bytes(b.try_into().ok()?)) };
    match r {
        ctap2::Response::MakeCredential(x) => ("make_credential", be(&x.auth_data)),
        ctap2::Response::GetAssertion(x) => ("get_assertion", be(&x.credential.id)),
        ctap2::Response::GetNextAssertion(x) => ("get_next_assertion", be(&x.credential.id)),
        ctap2::Response::GetInfo(x) => ("get_info", x.max_msg_size.map(|v| v as u32)),
        ctap2::Response::ClientPin(x) => ("client_pin", x.pin_token.as_ref().and_then(|t| be(t))),
        ctap2::Response::Reset => ("reset", None),
        ctap2::Response::Selection => ("selection", None),
        ctap2::Response::CredentialManagement(x) => ("credential_management", x.existing_resident_credentials_count),
        ctap2::Response::LargeBlobs(x) => ("large_blobs", x.config.as_ref().and_then(|t| be(t))),
        ctap2::Response::Vendor => ("vendor", None),
        #[allow(unreachable_patterns)]
        _ => ("?", None),
    }
}

/// One CTAP2 exchange against one mock through one entry point; returns a description of the
/// observable outcome (for cross-entry-point comparison) or the finding.
fn check_ctap2<const LB: bool>(m: &mut Mock<LB>, req: &ctap2::Request, script: u8, via_rpc: bool, cmd_handler: Option<&'static str>) -> Result<String, Finding>
where
    Mock<LB>: ctap2::Authenticator,
{
    use ctap2::Authenticator;
    let exp = expect_for(req);
    if let Some(h) = cmd_handler {
        // the decoded variant must be the one the host's command table assigns to the byte it sent;
        // if not, that is a decoding matter (C11): the exchange is not used
        if h != exp.handler {
            return Ok("skip-variant".into());
        }
    }
    m.script = script;
    m.last = None;
    let before = m.log.len();
    let counter_before = m.counter;
    let res = guard(|| {
        if via_rpc {
            <Mock<LB> as ctap_types::Rpc<ctap2::Error, ctap2::Request, ctap2::Response>>::call(m, req)
        } else {
            m.call_ctap2(req)
        }
    })
    .map_err(|p| Finding { rule: "panic".into(), detail: format!("dispatch panicked: {}", p) })?;
    let added: Vec<(&'static str, String)> = m.log[before..].to_vec();
    let who = if via_rpc { "Rpc::call" } else { "call_ctap2" };
    let f = |rule: &str, d: String| Err(Finding { rule: rule.into(), detail: format!("{} via {}: {}", exp.handler, who, d) });
    let implements = LB || exp.handler != "large_blobs";
    if !implements {
        if !added.is_empty() {
            return f("unimplemented_called", format!("authenticator without large blobs had handlers {:?} invoked", added.iter().map(|a| a.0).collect::<Vec<_>>()));
        }
        if res != Err(ctap2::Error::InvalidCommand) {
            return f("unimplemented_status", format!("authenticator without large blobs must answer InvalidCommand, got {}", short2(&res)));
        }
        return Ok(format!("unimplemented:{}", short2(&res)));
    }
    if added.len() != 1 {
        return f("call_count", format!("{} handler invocations {:?} instead of exactly one", added.len(), added.iter().map(|a| a.0).collect::<Vec<_>>()));
    }
    if added[0].0 != exp.handler {
        return f("wrong_handler", format!("handler {} was invoked", added[0].0));
    }
    if added[0].1 != exp.params {
        return f("params_changed", format!("handler received {} but the request carried {}", trunc(&added[0].1), trunc(&exp.params)));
    }
    let unique = counter_before.wrapping_add(1);
    let fails = script != 0 && exp.handler != "get_info";
    if fails {
        let want = CTAP2_STATUSES[(script as usize - 1) % CTAP2_STATUSES.len()];
        if res != Err(want) {
            return f("error_changed", format!("handler failed with {:?} but the caller got {}", want, short2(&res)));
        }
    } else {
        match &res {
            Ok(r) => {
                let (variant, _) = unpack2(r);
                if variant != exp.handler {
                    return f("wrong_response_variant", format!("result was wrapped as the {} response", variant));
                }
                // the handler's complete result, every member included, must come back
                match m.last.take() {
                    Some(want) => {
                        if *r != want {
                            return f("result_changed", format!("the caller got {} but the handler returned {}", trunc(&format!("{:?}", r)), trunc(&format!("{:?}", want))));
                        }
                    }
                    None => return f("result_changed", "the caller got a response although the handler recorded none".to_string()),
                }
                let _ = unique;
            }
            Err(e) => return f("spurious_error", format!("handler succeeded but the caller got Err({:?})", e)),
        }
    }
    Ok(format!("{}:{}:{}", exp.handler, added[0].1.len(), short2(&res)))
}

fn trunc(sv: &str) -> String {
    if sv.len() > 200 {
        format!("{}..", &sv[..200])
    } else {
        sv.to_string()
    }
}

fn short2(r: &ctap2::Result<ctap2::Response>) -> String {
    match r {
        Ok(x) => {
            let (v, val) = unpack2(x);
            format!("Ok({},{:?})", v, val)
        }
        Err(e) => format!("Err({:?})", e),
    }
}

fn check_ctap1<const LB: bool>(m: &mut Mock<LB>, req: &ctap1::Request, script: u8, via_rpc: bool) -> Result<String, Finding> {
    use ctap1::Authenticator;
    let (handler, params) = match req {
        ctap1::Request::Register(r) => ("register", format!("{:?}", r)),
        ctap1::Request::Authenticate(r) => ("authenticate", format!("{:?}", r)),
        ctap1::Request::Version => ("version", String::new()),
    };
    m.script = script;
    m.last1 = None;
    let before = m.log.len();
    let counter_before = m.counter;
    let res = guard(|| {
        if via_rpc {
            <Mock<LB> as ctap_types::Rpc<ctap1::Error, ctap1::Request<'_>, ctap1::Response>>::call(m, req)
        } else {
            m.call_ctap1(req)
        }
    })
    .map_err(|p| Finding { rule: "panic".into(), detail: format!("dispatch panicked: {}", p) })?;
    let added: Vec<(&'static str, String)> = m.log[before..].to_vec();
    let who = if via_rpc { "Rpc::call" } else { "call_ctap1" };
    let f = |rule: &str, d: String| Err(Finding { rule: rule.into(), detail: format!("ctap1 {} via {}: {}", handler, who, d) });
    let short = |r: &ctap1::Result<ctap1::Response>| match r {
        Ok(ctap1::Response::Register(x)) => format!("Ok(register,{:?})", x.key_handle.as_slice()),
        Ok(ctap1::Response::Authenticate(x)) => format!("Ok(authenticate,{})", x.count),
        Ok(ctap1::Response::Version(v)) => format!("Ok(version,{:?})", v),
        Err(e) => format!("Err({:?})", e),
    };
    if handler == "version" {
        if !added.is_empty() {
            return f("call_count", format!("Version invoked handlers {:?}", added.iter().map(|a| a.0).collect::<Vec<_>>()));
        }
        if res != Ok(ctap1::Response::Version(VERSION_MARKER)) {
            return f("version", format!("Version must return the authenticator's version bytes and cannot fail, got {}", short(&res)));
        }
        return Ok(format!("version:{}", short(&res)));
    }
    if added.len() != 1 {
        return f("call_count", format!("{} handler invocations {:?} instead of exactly one", added.len(), added.iter().map(|a| a.0).collect::<Vec<_>>()));
    }
    if added[0].0 != handler {
        return f("wrong_handler", format!("handler {} was invoked", added[0].0));
    }
    if added[0].1 != params {
        return f("params_changed", format!("handler received {} but the request carried {}", trunc(&added[0].1), trunc(&params)));
    }
    let unique = counter_before.wrapping_add(1);
    if script != 0 {
        let want = CTAP1_STATUSES[(script as usize - 1) % CTAP1_STATUSES.len()];
        if res != Err(want) {
            return f("error_changed", format!("handler failed with {:?} but the caller got {}", want, short(&res)));
        }
    } else {
        match (&res, m.last1.take()) {
            (Ok(r), Some(want)) => {
                let same_kind = matches!((r, handler), (ctap1::Response::Register(_), "register") | (ctap1::Response::Authenticate(_), "authenticate"));
                if !same_kind {
                    return f("wrong_response_variant", format!("result was {}", short(&res)));
                }
                if *r != want {
                    return f("result_changed", format!("the caller got {} but the handler returned {}", trunc(&format!("{:?}", r)), trunc(&format!("{:?}", want))));
                }
                let _ = unique;
            }
            (Ok(_), None) => return f("result_changed", "the caller got a response although the handler recorded none".to_string()),
            (Err(e), _) => return f("spurious_error", format!("handler succeeded but the caller got Err({:?})", e)),
        }
    }
    Ok(format!("{}:{}:{}", handler, added[0].1.len(), short(&res)))
}

fn both2<const LB: bool>(direct: &mut Mock<LB>, rpc: &mut Mock<LB>, req: &ctap2::Request, script: u8, cmd_handler: Option<&'static str>) -> Result<String, Finding>
where
    Mock<LB>: ctap2::Authenticator,
{
    let a = check_ctap2(direct, req, script, false, cmd_handler)?;
    let b = check_ctap2(rpc, req, script, true, cmd_handler)?;
    if a != b || direct.log.len() != rpc.log.len() || direct.log.last() != rpc.log.last() {
        return Err(Finding { rule: "entry_points_differ".into(), detail: format!("call_ctap2 gave {} but Rpc::call gave {}", trunc(&a), trunc(&b)) });
    }
    Ok(a)
}

fn both1<const LB: bool>(direct: &mut Mock<LB>, rpc: &mut Mock<LB>, req: &ctap1::Request, script: u8) -> Result<String, Finding> {
    let a = check_ctap1(direct, req, script, false)?;
    let b = check_ctap1(rpc, req, script, true)?;
    if a != b || direct.log.len() != rpc.log.len() || direct.log.last() != rpc.log.last() {
        return Err(Finding { rule: "entry_points_differ".into(), detail: format!("call_ctap1 gave {} but Rpc::call gave {}", trunc(&a), trunc(&b)) });
    }
    Ok(a)
}

/// C19: a generated request must be dispatchable without fault (handlers succeed, both entry points).
pub fn dispatch_generated2(m: &mut Mocks, req: &ctap2::Request) -> Result<String, Finding> {
    let r = both2(&mut m.lb_direct, &mut m.lb_rpc, req, 0, None);
    for l in [&mut m.lb_direct.log, &mut m.lb_rpc.log] {
        if l.len() > 64 {
            l.drain(..32);
        }
    }
    r
}

pub fn dispatch_generated1(m: &mut Mocks, req: &ctap1::Request) -> Result<String, Finding> {
    let r = both1(&mut m.lb_direct, &mut m.lb_rpc, req, 0);
    for l in [&mut m.lb_direct.log, &mut m.lb_rpc.log] {
        if l.len() > 64 {
            l.drain(..32);
        }
    }
    r
}

pub fn exec(dev: &mut Device, x: &DispatchSpec, log: &mut Log) -> Option<Finding> {
    let script = x.script;
    let outcome: Result<String, Finding> = match x.source {
        2 => match guard(|| ctap2::Request::deserialize(&x.bytes).map_err(|e| e as u8)) {
            Ok(Ok(req)) => {
                let h = x.bytes.first().and_then(|b| handler_for_cmd(*b));
                if x.large_blobs {
                    both2(&mut dev.mocks.lb_direct, &mut dev.mocks.lb_rpc, &req, script, h)
                } else {
                    both2(&mut dev.mocks.nolb_direct, &mut dev.mocks.nolb_rpc, &req, script, h)
                }
            }
            // a request the decoder does not accept never reaches the dispatcher: not this property's business
            Ok(Err(st)) => Ok(format!("skip-undecodable:0x{:02x}", st)),
            Err(_) => Ok("skip-decoder-panic".into()),
        },
        1 => {
            let parsed = guard(|| iso7816::Command::<7609>::try_from(&x.bytes[..]).ok());
            match parsed {
                Ok(Some(cmd)) => match guard(|| ctap1::Request::try_from(&cmd).ok()) {
                    Ok(Some(req)) => {
                        if x.large_blobs {
                            both1(&mut dev.mocks.lb_direct, &mut dev.mocks.lb_rpc, &req, script)
                        } else {
                            both1(&mut dev.mocks.nolb_direct, &mut dev.mocks.nolb_rpc, &req, script)
                        }
                    }
                    _ => Ok("skip-unparsable-apdu".into()),
                },
                _ => Ok("skip-unparsable-apdu".into()),
            }
        }
        #[cfg(feature = "arbitrary")]
        12 => {
            use arbitrary::{Arbitrary, Unstructured};
            let mut u = Unstructured::new(&x.bytes);
            match guard(|| ctap2::Request::arbitrary(&mut u).ok()) {
                Ok(Some(req)) => {
                    if x.large_blobs {
                        both2(&mut dev.mocks.lb_direct, &mut dev.mocks.lb_rpc, &req, script, None)
                    } else {
                        both2(&mut dev.mocks.nolb_direct, &mut dev.mocks.nolb_rpc, &req, script, None)
                    }
                }
                _ => Ok("skip-generator".into()),
            }
        }
        #[cfg(feature = "arbitrary")]
        11 => {
            use arbitrary::{Arbitrary, Unstructured};
            let mut u = Unstructured::new(&x.bytes);
            match guard(|| ctap1::Request::arbitrary(&mut u).ok()) {
                Ok(Some(req)) => {
                    if x.large_blobs {
                        both1(&mut dev.mocks.lb_direct, &mut dev.mocks.lb_rpc, &req, script)
                    } else {
                        both1(&mut dev.mocks.nolb_direct, &mut dev.mocks.nolb_rpc, &req, script)
                    }
                }
                _ => Ok("skip-generator".into()),
            }
        }
        _ => Ok("skip-source-unavailable".into()),
    };
    // keep the persistent call logs bounded
    for l in [&mut dev.mocks.lb_direct.log, &mut dev.mocks.lb_rpc.log] {
        if l.len() > 64 {
            l.drain(..32);
        }
    }
    for l in [&mut dev.mocks.nolb_direct.log, &mut dev.mocks.nolb_rpc.log] {
        if l.len() > 64 {
            l.drain(..32);
        }
    }
    match outcome {
        Ok(o) => {
            log.event(&format!("dispatch src={} script={} lb={} -> {}", x.source, script, x.large_blobs, trunc(&o)));
            dev.last_outcome = o;
            None
        }
        Err(f) => {
            log.event(&format!("dispatch src={} script={} lb={} -> FINDING {}", x.source, script, x.large_blobs, f.rule));
            dev.last_outcome = format!("finding:{}", f.rule);
            Some(Finding { rule: f.rule, detail: format!("{} [{}]", f.detail, x.desc) })
        }
    }
}

// ------------------------------------------------------------------ workload

pub fn plan(tier: &str) -> u64 {
    match tier {
        "thorough" => 40_000,
        "selfcheck" => 20_000,
        _ => 1_000,
    }
}

fn apdu(rng: &mut Rng, ins: u8, p1: u8, data: &[u8]) -> Vec<u8> {
    // short or extended form, with or without Le
    let extended = data.len() > 255 || rng.chance(1, 3);
    let mut out = vec![0x00, ins, p1, 0x00];
    if extended {
        if !data.is_empty() {
            out.push(0);
            out.extend_from_slice(&(data.len() as u16).to_be_bytes());
            out.extend_from_slice(data);
            if rng.coin() {
                out.extend_from_slice(&[0, 0]);
            }
        } else if rng.coin() {
            out.extend_from_slice(&[0, 0, 0]);
        }
    } else {
        if !data.is_empty() {
            out.push(data.len() as u8);
            out.extend_from_slice(data);
        }
        if rng.coin() {
            out.push(0);
        }
    }
    out
}

/// Every request variant x every script x both flavours, covered completely in every run; payloads seeded.
pub fn gen(seed: u64, run: u64, _tier: &str) -> Vec<Step> {
    let mut rng = Rng::new(seed, run, 10);
    let mut specs: Vec<DispatchSpec> = Vec::new();
    let mode = match run % 3 {
        0 => GenMode::Max,
        1 => GenMode::Min,
        _ => GenMode::Random,
    };
    let mut ctap2_msgs: Vec<(Vec<u8>, String)> = Vec::new();
    for cmd in schema::PARAM_CMDS {
        let sc = schema::schema_for(cmd).unwrap();
        let root = schema::gen_map(&sc, &mut rng, mode);
        let mut b = vec![cmd];
        cbor::enc_into(&mut b, &root);
        ctap2_msgs.push((b, format!("CTAP2 command 0x{:02x} {}", cmd, cbor::show(&root))));
    }
    for cmd in [0x04u8, 0x07, 0x08, 0x0B] {
        let mut b = vec![cmd];
        if rng.coin() {
            b.extend_from_slice(&rng.bytes(5));
        }
        ctap2_msgs.push((b, format!("CTAP2 command 0x{:02x}", cmd)));
    }
    for cmd in 0x42u8..=0x7f {
        ctap2_msgs.push((vec![cmd], format!("CTAP2 vendor command 0x{:02x}", cmd)));
    }
    // success plus six statuses per run, rotating through every status the error types can express
    let n2 = CTAP2_STATUSES.len() as u64;
    let n1 = CTAP1_STATUSES.len() as u64;
    let mut scripts2: Vec<u8> = vec![0];
    let mut scripts1: Vec<u8> = vec![0];
    for k in 0..6u64 {
        scripts2.push(((run * 6 + k) % n2) as u8 + 1);
        scripts1.push(((run * 6 + k) % n1) as u8 + 1);
    }
    for (bytes, desc) in &ctap2_msgs {
        let vendor = bytes[0] >= 0x42;
        for lb in [false, true] {
            // vendor codes: every code with a rotating script; everything else: every script
            let scripts: Vec<u8> = if vendor { vec![if (bytes[0] as u64 + run) % 3 == 0 { 0 } else { ((bytes[0] as u64 * 7 + run) % n2) as u8 + 1 }] } else { scripts2.clone() };
            for script in scripts {
                specs.push(DispatchSpec { source: 2, bytes: bytes.clone(), script, large_blobs: lb, desc: desc.clone() });
            }
        }
    }
    // CTAP1: register, authenticate (three control bytes), version
    let mut apdus: Vec<(Vec<u8>, String)> = Vec::new();
    let reg = rng.bytes(64);
    apdus.push((apdu(&mut rng, 1, 0, &reg), "U2F register".into()));
    for p1 in [0x03u8, 0x07, 0x08] {
        let khl = *rng.pick(&[0usize, 1, 64, 254, 255]);
        let mut d = rng.bytes(64);
        d.push(khl as u8);
        d.extend_from_slice(&rng.bytes(khl));
        apdus.push((apdu(&mut rng, 2, p1, &d), format!("U2F authenticate p1=0x{:02x} key handle {} bytes", p1, khl)));
    }
    apdus.push((apdu(&mut rng, 3, 0, &[]), "U2F version".into()));
    apdus.push((apdu(&mut rng, 3, 0x55, &[1, 2, 3]), "U2F version with stray parameters".into()));
    for (bytes, desc) in &apdus {
        for lb in [false, true] {
            for script in scripts1.iter().copied() {
                specs.push(DispatchSpec { source: 1, bytes: bytes.clone(), script, large_blobs: lb, desc: desc.clone() });
            }
        }
    }
    // requests produced by the crate's own generators (feature arbitrary)
    if cfg!(feature = "arbitrary") {
        for _ in 0..40 {
            let n = *rng.pick(&[64usize, 200, 600, 2000]);
            let mut e = rng.bytes(n);
            if rng.coin() {
                // the derived enum choice is (u32 little-endian * 10) >> 32: steer its top byte across all variants
                e[3] = rng.below(10) as u8 * 26 + 5;
            }
            let src = if rng.chance(1, 4) { 11 } else { 12 };
            specs.push(DispatchSpec { source: src, bytes: e, script: if rng.coin() { 0 } else { rng.below(n2.min(n1)) as u8 + 1 }, large_blobs: rng.coin(), desc: format!("request generated from {} bytes of entropy", n) });
        }
    }
    // the order of exchanges is the schedule: the mocks' state persists across them
    for i in (1..specs.len()).rev() {
        let j = rng.usize_below(i + 1);
        specs.swap(i, j);
    }
    specs.into_iter().map(Step::Dispatch).collect()
}

pub fn account(step: &Step, outcome: &str, stats: &mut Stats) {
    if let Step::Dispatch(x) = step {
        stats.evaluations += 1;
        stats.real_calls += 3;
        if outcome.starts_with("skip") {
            stats.probe(outcome.split(':').next().unwrap_or("skip"));
            return;
        }
        let script = x.script;
        if script != 0 {
            stats.fault("handler_fails");
        }
        let handler = outcome.split(':').next().unwrap_or("");
        if script != 0 && outcome.contains("Err(") && handler != "unimplemented" {
            stats.probe("handler_failed_status_propagated");
        }
        if script == 0 && outcome.contains("Ok(") {
            stats.probe("handler_succeeded_value_returned");
        }
        if handler == "get_info" && script != 0 {
            stats.probe("get_info_under_failing_script");
        }
        if handler == "version" && script != 0 {
            stats.probe("ctap1_version_under_failing_script");
        }
        if handler == "unimplemented" {
            stats.probe("large_blobs_without_override");
        }
        if handler == "large_blobs" {
            stats.probe("large_blobs_with_override");
        }
        if handler == "vendor" {
            if let Some(c) = x.bytes.first() {
                stats.probe(&format!("vendor_code_{:02x}", c));
            }
            if (0x42u8..=0x7f).all(|c| stats.probes.contains_key(&format!("vendor_code_{:02x}", c))) {
                stats.probe("vendor_all_62_codes");
            }
        }
        if handler == "register" {
            stats.probe("ctap1_register");
        }
        if handler == "authenticate" {
            stats.probe("ctap1_authenticate");
        }
        stats.distinct(&[handler, &script.to_string(), if x.large_blobs { "lb" } else { "nolb" }, &x.source.to_string(), if outcome.contains("Ok(") { "ok" } else { "err" }]);
        if stats.evaluations % 1511 == 1 {
            let mut j = x.to_json();
            j.set("outcome", s(trunc(outcome)));
            stats.sample(j);
        }
    }
}
