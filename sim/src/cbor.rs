//! Host-side CBOR model: an independent value type, an encoder that can also
//! produce deliberately ill-formed / non-canonical encodings, and a reference
//! decoder (RFC 8949 well-formedness, plus a canonical-form flag).
//!
//! Nothing in here uses `cbor-smol`, `serde` or `ctap-types`: the oracle must not
//! be built from the code it judges.

#[derive(Clone, Debug, PartialEq)]
pub enum V {
    /// unsigned integer (major 0)
    U(u64),
    /// negative integer -1 - n (major 1)
    N(u64),
    /// byte string (major 2)
    B(Vec<u8>),
    /// text string (major 3); bytes, so that ill-formed UTF-8 can be expressed
    T(Vec<u8>),
    /// array (major 4)
    A(Vec<V>),
    /// map (major 5), entries in emission order
    M(Vec<(V, V)>),
    /// tag (major 6)
    Tag(u64, Box<V>),
    Bool(bool),
    Null,
    Undef,
    /// simple value (major 7, values 0..=19 and 32..=255)
    Simple(u8),
    F16(u16),
    F32(u32),
    F64(u64),

    // ---- wire-level deviations (faults); never produced by the well-formed generator ----
    /// verbatim bytes in place of an item
    Raw(Vec<u8>),
    /// the inner item with its head argument encoded in `1 << k` extra bytes (k = 0..=3)
    Wide(Box<V>, u8),
    /// the inner string/array/map encoded with indefinite length (+ break)
    Indef(Box<V>),
    /// head with the given major type and additional-information value, nothing else
    Head(u8, u8),
    /// head (major, declared length/count) with no content following
    Declared(u8, u64),
    /// map whose declared count differs from its entries (count, entries)
    MapCount(u64, Vec<(V, V)>),
    /// array whose declared count differs from its elements
    ArrCount(u64, Vec<V>),
}

pub fn t(s: &str) -> V {
    V::T(s.as_bytes().to_vec())
}

pub fn int(i: i64) -> V {
    if i >= 0 {
        V::U(i as u64)
    } else {
        V::N((-1 - i) as u64)
    }
}

fn head(out: &mut Vec<u8>, major: u8, arg: u64) {
    let m = major << 5;
    if arg < 24 {
        out.push(m | arg as u8);
    } else if arg <= 0xff {
        out.push(m | 24);
        out.push(arg as u8);
    } else if arg <= 0xffff {
        out.push(m | 25);
        out.extend_from_slice(&(arg as u16).to_be_bytes());
    } else if arg <= 0xffff_ffff {
        out.push(m | 26);
        out.extend_from_slice(&(arg as u32).to_be_bytes());
    } else {
        out.push(m | 27);
        out.extend_from_slice(&arg.to_be_bytes());
    }
}

fn head_wide(out: &mut Vec<u8>, major: u8, arg: u64, k: u8) {
    let m = major << 5;
    match k {
        0 => {
            out.push(m | 24);
            out.push(arg as u8);
        }
        1 => {
            out.push(m | 25);
            out.extend_from_slice(&(arg as u16).to_be_bytes());
        }
        2 => {
            out.push(m | 26);
            out.extend_from_slice(&(arg as u32).to_be_bytes());
        }
        _ => {
            out.push(m | 27);
            out.extend_from_slice(&arg.to_be_bytes());
        }
    }
}

/// (major, argument) of the head of a plain item, if it has an argument-bearing head
pub fn head_of(v: &V) -> Option<(u8, u64)> {
    Some(match v {
        V::U(n) => (0, *n),
        V::N(n) => (1, *n),
        V::B(b) => (2, b.len() as u64),
        V::T(b) => (3, b.len() as u64),
        V::A(a) => (4, a.len() as u64),
        V::M(m) => (5, m.len() as u64),
        V::Tag(n, _) => (6, *n),
        V::Bool(false) => (7, 20),
        V::Bool(true) => (7, 21),
        V::Null => (7, 22),
        V::Undef => (7, 23),
        V::Simple(s) => (7, *s as u64),
        _ => return None,
    })
}

/// Smallest k such that an argument fits `1 << k` bytes; None if it fits the initial byte.
pub fn min_width(arg: u64) -> Option<u8> {
    if arg < 24 {
        None
    } else if arg <= 0xff {
        Some(0)
    } else if arg <= 0xffff {
        Some(1)
    } else if arg <= 0xffff_ffff {
        Some(2)
    } else {
        Some(3)
    }
}

fn body(out: &mut Vec<u8>, v: &V) {
    match v {
        V::B(b) | V::T(b) => out.extend_from_slice(b),
        V::A(a) => {
            for x in a {
                enc_into(out, x)
            }
        }
        V::M(m) => {
            for (k, x) in m {
                enc_into(out, k);
                enc_into(out, x);
            }
        }
        V::Tag(_, inner) => enc_into(out, inner),
        _ => {}
    }
}

pub fn enc_into(out: &mut Vec<u8>, v: &V) {
    match v {
        V::U(_) | V::N(_) | V::Bool(_) | V::Null | V::Undef => {
            let (m, a) = head_of(v).unwrap();
            head(out, m, a);
        }
        V::Simple(s) => {
            if *s < 24 {
                out.push(0xe0 | *s);
            } else {
                out.push(0xf8);
                out.push(*s);
            }
        }
        V::B(_) | V::T(_) | V::A(_) | V::M(_) | V::Tag(..) => {
            let (m, a) = head_of(v).unwrap();
            head(out, m, a);
            body(out, v);
        }
        V::F16(b) => {
            out.push(0xf9);
            out.extend_from_slice(&b.to_be_bytes());
        }
        V::F32(b) => {
            out.push(0xfa);
            out.extend_from_slice(&b.to_be_bytes());
        }
        V::F64(b) => {
            out.push(0xfb);
            out.extend_from_slice(&b.to_be_bytes());
        }
        V::Raw(b) => out.extend_from_slice(b),
        V::Wide(inner, k) => match head_of(inner) {
            Some((m, a)) => {
                head_wide(out, m, a, *k);
                body(out, inner);
            }
            None => enc_into(out, inner),
        },
        V::Indef(inner) => match &**inner {
            V::B(b) => {
                out.push(0x5f);
                head(out, 2, b.len() as u64);
                out.extend_from_slice(b);
                out.push(0xff);
            }
            V::T(b) => {
                out.push(0x7f);
                head(out, 3, b.len() as u64);
                out.extend_from_slice(b);
                out.push(0xff);
            }
            V::A(_) => {
                out.push(0x9f);
                body(out, inner);
                out.push(0xff);
            }
            V::M(_) => {
                out.push(0xbf);
                body(out, inner);
                out.push(0xff);
            }
            other => enc_into(out, other),
        },
        V::Head(m, ai) => out.push((m << 5) | (ai & 31)),
        V::Declared(m, n) => head(out, *m, *n),
        V::MapCount(n, m) => {
            head(out, 5, *n);
            for (k, x) in m {
                enc_into(out, k);
                enc_into(out, x);
            }
        }
        V::ArrCount(n, a) => {
            head(out, 4, *n);
            for x in a {
                enc_into(out, x)
            }
        }
    }
}

pub fn enc(v: &V) -> Vec<u8> {
    let mut out = Vec::new();
    enc_into(&mut out, v);
    out
}

/// CTAP2 canonical key order: lower major type first, then shorter encoding, then bytewise.
pub fn canonical_key_cmp(a: &V, b: &V) -> std::cmp::Ordering {
    let ea = enc(a);
    let eb = enc(b);
    let ma = ea.first().map(|x| x >> 5).unwrap_or(0);
    let mb = eb.first().map(|x| x >> 5).unwrap_or(0);
    ma.cmp(&mb)
        .then(ea.len().cmp(&eb.len()))
        .then_with(|| ea.cmp(&eb))
}

pub fn sort_canonical(m: &mut Vec<(V, V)>) {
    m.sort_by(|a, b| canonical_key_cmp(&a.0, &b.0));
}

// ------------------------------------------------------------------ reference decoder

#[derive(Clone, Debug, PartialEq)]
pub enum DecErr {
    /// input ended inside an item
    Truncated,
    /// reserved additional information, unexpected break, bad nesting of chunks, ...
    IllFormed(&'static str),
    /// nesting deeper than the decoder is prepared to follow
    TooDeep,
}

#[derive(Clone, Copy, Debug, Default, PartialEq)]
pub struct Form {
    pub non_minimal: bool,
    pub indefinite: bool,
    pub unsorted_or_dup_keys: bool,
    pub bad_utf8: bool,
    pub has_tag_float_undef: bool,
}

impl Form {
    pub fn canonical(&self) -> bool {
        !(self.non_minimal
            || self.indefinite
            || self.unsorted_or_dup_keys
            || self.bad_utf8
            || self.has_tag_float_undef)
    }
}

pub struct Dec<'a> {
    pub d: &'a [u8],
    pub pos: usize,
    pub form: Form,
}

impl<'a> Dec<'a> {
    pub fn new(d: &'a [u8]) -> Self {
        Dec {
            d,
            pos: 0,
            form: Form::default(),
        }
    }

    fn take(&mut self, n: usize) -> Result<&'a [u8], DecErr> {
        if self.d.len() - self.pos < n {
            return Err(DecErr::Truncated);
        }
        let s = &self.d[self.pos..self.pos + n];
        self.pos += n;
        Ok(s)
    }

    fn arg(&mut self, ai: u8) -> Result<u64, DecErr> {
        Ok(match ai {
            0..=23 => ai as u64,
            24 => {
                let v = self.take(1)?[0] as u64;
                if v < 24 {
                    self.form.non_minimal = true;
                }
                v
            }
            25 => {
                let v = u16::from_be_bytes(self.take(2)?.try_into().unwrap()) as u64;
                if v <= 0xff {
                    self.form.non_minimal = true;
                }
                v
            }
            26 => {
                let v = u32::from_be_bytes(self.take(4)?.try_into().unwrap()) as u64;
                if v <= 0xffff {
                    self.form.non_minimal = true;
                }
                v
            }
            27 => {
                let v = u64::from_be_bytes(self.take(8)?.try_into().unwrap());
                if v <= 0xffff_ffff {
                    self.form.non_minimal = true;
                }
                v
            }
            _ => return Err(DecErr::IllFormed("reserved additional information")),
        })
    }

    pub fn item(&mut self, depth: usize) -> Result<V, DecErr> {
        if depth > 20_000 {
            return Err(DecErr::TooDeep);
        }
        let ib = self.take(1)?[0];
        let major = ib >> 5;
        let ai = ib & 31;
        if ai == 31 {
            self.form.indefinite = true;
            return match major {
                2 | 3 => {
                    let mut acc = Vec::new();
                    loop {
                        let b = self.take(1)?[0];
                        if b == 0xff {
                            break;
                        }
                        if b >> 5 != major || b & 31 == 31 {
                            return Err(DecErr::IllFormed("bad chunk in indefinite string"));
                        }
                        let n = self.arg(b & 31)?;
                        let n = usize::try_from(n).map_err(|_| DecErr::Truncated)?;
                        acc.extend_from_slice(self.take(n)?);
                    }
                    if major == 3 && std::str::from_utf8(&acc).is_err() {
                        self.form.bad_utf8 = true;
                    }
                    Ok(if major == 2 { V::B(acc) } else { V::T(acc) })
                }
                4 => {
                    let mut a = Vec::new();
                    loop {
                        if self.d.get(self.pos) == Some(&0xff) {
                            self.pos += 1;
                            break;
                        }
                        a.push(self.item(depth + 1)?);
                    }
                    Ok(V::A(a))
                }
                5 => {
                    let mut m = Vec::new();
                    loop {
                        if self.d.get(self.pos) == Some(&0xff) {
                            self.pos += 1;
                            break;
                        }
                        let k = self.item(depth + 1)?;
                        let v = self.item(depth + 1)?;
                        m.push((k, v));
                    }
                    self.check_keys(&m);
                    Ok(V::M(m))
                }
                7 => Err(DecErr::IllFormed("unexpected break")),
                _ => Err(DecErr::IllFormed("indefinite length on major 0/1/6")),
            };
        }
        match major {
            0 => Ok(V::U(self.arg(ai)?)),
            1 => Ok(V::N(self.arg(ai)?)),
            2 | 3 => {
                let n = self.arg(ai)?;
                let n = usize::try_from(n).map_err(|_| DecErr::Truncated)?;
                let b = self.take(n)?.to_vec();
                if major == 3 && std::str::from_utf8(&b).is_err() {
                    self.form.bad_utf8 = true;
                }
                Ok(if major == 2 { V::B(b) } else { V::T(b) })
            }
            4 => {
                let n = self.arg(ai)?;
                let mut a = Vec::new();
                for _ in 0..n {
                    a.push(self.item(depth + 1)?);
                }
                Ok(V::A(a))
            }
            5 => {
                let n = self.arg(ai)?;
                let mut m = Vec::new();
                for _ in 0..n {
                    let k = self.item(depth + 1)?;
                    let v = self.item(depth + 1)?;
                    m.push((k, v));
                }
                self.check_keys(&m);
                Ok(V::M(m))
            }
            6 => {
                let n = self.arg(ai)?;
                self.form.has_tag_float_undef = true;
                Ok(V::Tag(n, Box::new(self.item(depth + 1)?)))
            }
            _ => match ai {
                20 => Ok(V::Bool(false)),
                21 => Ok(V::Bool(true)),
                22 => Ok(V::Null),
                23 => {
                    self.form.has_tag_float_undef = true;
                    Ok(V::Undef)
                }
                0..=19 => Ok(V::Simple(ai)),
                24 => {
                    let s = self.take(1)?[0];
                    if s < 32 {
                        return Err(DecErr::IllFormed("two-byte simple value below 32"));
                    }
                    Ok(V::Simple(s))
                }
                25 => {
                    self.form.has_tag_float_undef = true;
                    Ok(V::F16(u16::from_be_bytes(self.take(2)?.try_into().unwrap())))
                }
                26 => {
                    self.form.has_tag_float_undef = true;
                    Ok(V::F32(u32::from_be_bytes(self.take(4)?.try_into().unwrap())))
                }
                27 => {
                    self.form.has_tag_float_undef = true;
                    Ok(V::F64(u64::from_be_bytes(self.take(8)?.try_into().unwrap())))
                }
                _ => Err(DecErr::IllFormed("reserved additional information")),
            },
        }
    }

    fn check_keys(&mut self, m: &[(V, V)]) {
        for w in m.windows(2) {
            if canonical_key_cmp(&w[0].0, &w[1].0) != std::cmp::Ordering::Less {
                self.form.unsorted_or_dup_keys = true;
            }
        }
    }
}

/// Decode exactly one well-formed item; trailing bytes are an error.
pub fn decode_one(d: &[u8]) -> Result<(V, Form), DecErr> {
    let mut dec = Dec::new(d);
    let v = dec.item(0)?;
    if dec.pos != d.len() {
        return Err(DecErr::IllFormed("trailing bytes"));
    }
    Ok((v, dec.form))
}

/// Decode one item and report how many bytes it used.
pub fn decode_prefix(d: &[u8]) -> Result<(V, usize, Form), DecErr> {
    let mut dec = Dec::new(d);
    let v = dec.item(0)?;
    Ok((v, dec.pos, dec.form))
}

// ------------------------------------------------------------------ tree navigation

/// One step into a tree: array element, map value, or the item inside a tag.
#[derive(Clone, Copy, Debug, PartialEq, Eq, PartialOrd, Ord)]
pub enum Step {
    Idx(usize),
    Val(usize),
    Key(usize),
}

pub type Path = Vec<Step>;

pub fn get<'a>(v: &'a V, p: &[Step]) -> Option<&'a V> {
    let mut cur = v;
    for s in p {
        cur = match (cur, s) {
            (V::A(a), Step::Idx(i)) => a.get(*i)?,
            (V::M(m), Step::Val(i)) => &m.get(*i)?.1,
            (V::M(m), Step::Key(i)) => &m.get(*i)?.0,
            _ => return None,
        };
    }
    Some(cur)
}

pub fn get_mut<'a>(v: &'a mut V, p: &[Step]) -> Option<&'a mut V> {
    let mut cur = v;
    for s in p {
        cur = match (cur, s) {
            (V::A(a), Step::Idx(i)) => a.get_mut(*i)?,
            (V::M(m), Step::Val(i)) => &mut m.get_mut(*i)?.1,
            (V::M(m), Step::Key(i)) => &mut m.get_mut(*i)?.0,
            _ => return None,
        };
    }
    Some(cur)
}

/// Replace the node at `p` by `f(old)`.
pub fn replace(root: &V, p: &[Step], f: impl FnOnce(V) -> V) -> Option<V> {
    let mut r = root.clone();
    {
        let slot = get_mut(&mut r, p)?;
        let old = std::mem::replace(slot, V::Null);
        *slot = f(old);
    }
    Some(r)
}

pub fn show(v: &V) -> String {
    fn hex(b: &[u8]) -> String {
        if b.len() > 24 {
            format!(
                "{}..({} bytes)",
                b[..12].iter().map(|x| format!("{:02x}", x)).collect::<String>(),
                b.len()
            )
        } else {
            b.iter().map(|x| format!("{:02x}", x)).collect()
        }
    }
    match v {
        V::U(n) => format!("{}", n),
        V::N(n) => format!("-{}", *n as u128 + 1),
        V::B(b) => format!("h'{}'", hex(b)),
        V::T(b) => match std::str::from_utf8(b) {
            Ok(s) if s.len() <= 40 => format!("{:?}", s),
            Ok(s) => format!("\"{}..\"({} bytes)", s.chars().take(16).collect::<String>(), s.len()),
            Err(_) => format!("text-bad-utf8'{}'", hex(b)),
        },
        V::A(a) => format!("[{}]", a.iter().map(show).collect::<Vec<_>>().join(", ")),
        V::M(m) => format!(
            "{{{}}}",
            m.iter()
                .map(|(k, x)| format!("{}: {}", show(k), show(x)))
                .collect::<Vec<_>>()
                .join(", ")
        ),
        V::Tag(n, x) => format!("{}({})", n, show(x)),
        V::Bool(b) => format!("{}", b),
        V::Null => "null".into(),
        V::Undef => "undefined".into(),
        V::Simple(s) => format!("simple({})", s),
        V::F16(b) => format!("f16(0x{:04x})", b),
        V::F32(b) => format!("f32(0x{:08x})", b),
        V::F64(b) => format!("f64(0x{:016x})", b),
        V::Raw(b) => format!("raw'{}'", hex(b)),
        V::Wide(x, k) => format!("wide{}({})", 1u32 << k, show(x)),
        V::Indef(x) => format!("indef({})", show(x)),
        V::Head(m, ai) => format!("head(major {}, ai {})", m, ai),
        V::Declared(m, n) => format!("declared(major {}, len {})", m, n),
        V::MapCount(n, m) => format!("mapcount({}, {})", n, show(&V::M(m.clone()))),
        V::ArrCount(n, a) => format!("arrcount({}, {})", n, show(&V::A(a.clone()))),
    }
}

#[cfg(test)]
mod tests {
    use super::*;
    fn h(s: &str) -> Vec<u8> {
        (0..s.len() / 2)
            .map(|i| u8::from_str_radix(&s[2 * i..2 * i + 2], 16).unwrap())
            .collect()
    }
    // RFC 8949 Appendix A vectors
    #[test]
    fn rfc8949_examples() {
        assert_eq!(enc(&V::U(0)), h("00"));
        assert_eq!(enc(&V::U(23)), h("17"));
        assert_eq!(enc(&V::U(24)), h("1818"));
        assert_eq!(enc(&V::U(100)), h("1864"));
        assert_eq!(enc(&V::U(1000)), h("1903e8"));
        assert_eq!(enc(&V::U(1000000)), h("1a000f4240"));
        assert_eq!(enc(&V::U(1000000000000)), h("1b000000e8d4a51000"));
        assert_eq!(enc(&V::U(u64::MAX)), h("1bffffffffffffffff"));
        assert_eq!(enc(&int(-1)), h("20"));
        assert_eq!(enc(&int(-10)), h("29"));
        assert_eq!(enc(&int(-100)), h("3863"));
        assert_eq!(enc(&int(-1000)), h("3903e7"));
        assert_eq!(enc(&V::Bool(false)), h("f4"));
        assert_eq!(enc(&V::Bool(true)), h("f5"));
        assert_eq!(enc(&V::Null), h("f6"));
        assert_eq!(enc(&V::Undef), h("f7"));
        assert_eq!(enc(&V::Simple(16)), h("f0"));
        assert_eq!(enc(&V::Simple(255)), h("f8ff"));
        assert_eq!(enc(&V::B(vec![])), h("40"));
        assert_eq!(enc(&V::B(vec![1, 2, 3, 4])), h("4401020304"));
        assert_eq!(enc(&t("")), h("60"));
        assert_eq!(enc(&t("IETF")), h("6449455446"));
        assert_eq!(enc(&t("\u{00fc}")), h("62c3bc"));
        assert_eq!(enc(&V::A(vec![])), h("80"));
        assert_eq!(enc(&V::A(vec![V::U(1), V::U(2), V::U(3)])), h("83010203"));
        assert_eq!(
            enc(&V::A((1..=25).map(V::U).collect())),
            h("98190102030405060708090a0b0c0d0e0f101112131415161718181819")
        );
        assert_eq!(enc(&V::M(vec![])), h("a0"));
        assert_eq!(
            enc(&V::M(vec![(V::U(1), V::U(2)), (V::U(3), V::U(4))])),
            h("a201020304")
        );
        assert_eq!(
            enc(&V::M(vec![(t("a"), V::U(1)), (t("b"), V::A(vec![V::U(2), V::U(3)]))])),
            h("a26161016162820203")
        );
        assert_eq!(enc(&V::Tag(1, Box::new(V::U(1363896240)))), h("c11a514b67b0"));
        assert_eq!(enc(&V::F16(0x3c00)), h("f93c00"));
        assert_eq!(
            enc(&V::Indef(Box::new(V::A(vec![V::U(1), V::U(2)])))),
            h("9f0102ff")
        );
        assert_eq!(
            enc(&V::Indef(Box::new(V::M(vec![(t("a"), V::U(1))])))),
            h("bf616101ff")
        );
    }

    #[test]
    fn decode_examples() {
        for s in [
            "00", "17", "1818", "1903e8", "1bffffffffffffffff", "3903e7", "f4", "f6", "f8ff",
            "4401020304", "6449455446", "83010203", "a201020304", "a26161016162820203",
            "c11a514b67b0", "f93c00", "fb7e37e43c8800759c",
        ] {
            let b = h(s);
            let (v, _) = decode_one(&b).unwrap();
            assert_eq!(enc(&v), b, "{}", s);
        }
        // indefinite forms are well-formed but flagged
        let (v, f) = decode_one(&h("9f018202039f0405ffff")).unwrap();
        assert!(f.indefinite);
        assert_eq!(
            v,
            V::A(vec![
                V::U(1),
                V::A(vec![V::U(2), V::U(3)]),
                V::A(vec![V::U(4), V::U(5)])
            ])
        );
        let (v, f) = decode_one(&h("5f42010243030405ff")).unwrap();
        assert!(f.indefinite);
        assert_eq!(v, V::B(vec![1, 2, 3, 4, 5]));
        // not well-formed (RFC 8949 Appendix F)
        for s in [
            "18", "19", "1a", "1b", "1901", "1a0102", "1b01020304050607", "41", "61", "5affffffff00",
            "81", "818181818181818181", "8200", "a1", "a20102", "a100", "1c", "1d", "1e", "3c", "5c",
            "7e", "9d", "bc", "dc", "fc", "fd", "fe", "f800", "f81f", "ff", "81ff", "5f00ff",
            "5f21ff", "5f41005fff", "1f", "3f", "df", "9f", "9f01", "bf01ff", "bf6161", "a2ff",
        ] {
            assert!(decode_one(&h(s)).is_err(), "{} must be rejected", s);
        }
        assert_eq!(decode_one(&h("0000")), Err(DecErr::IllFormed("trailing bytes")));
        // canonical flags
        assert!(decode_one(&h("1817")).unwrap().1.non_minimal);
        assert!(decode_one(&h("a2616201616101")).unwrap().1.unsorted_or_dup_keys);
        assert!(decode_one(&h("a2010a010b")).unwrap().1.unsorted_or_dup_keys);
        assert!(decode_one(&h("a2616101616202")).unwrap().1.canonical());
        // CTAP2 order: shorter key first, even if bytewise larger
        assert!(decode_one(&h("a2617a0162616102")).unwrap().1.canonical());
        assert!(decode_one(&h("62c328")).unwrap().1.bad_utf8);
    }

    #[test]
    fn wide_heads() {
        assert_eq!(enc(&V::Wide(Box::new(V::U(1)), 0)), h("1801"));
        assert_eq!(enc(&V::Wide(Box::new(V::U(1)), 1)), h("190001"));
        assert_eq!(enc(&V::Wide(Box::new(V::U(1)), 2)), h("1a00000001"));
        assert_eq!(enc(&V::Wide(Box::new(V::U(1)), 3)), h("1b0000000000000001"));
        assert_eq!(enc(&V::Wide(Box::new(V::B(vec![7])), 0)), h("580107"));
        assert_eq!(enc(&V::Wide(Box::new(V::A(vec![V::U(7)])), 1)), h("99000107"));
        assert_eq!(enc(&V::Wide(Box::new(V::Bool(true)), 0)), h("f815"));
        assert_eq!(enc(&V::Declared(2, 0xffff_ffff)), h("5affffffff"));
        assert_eq!(enc(&V::Head(3, 28)), h("7c"));
    }
}
