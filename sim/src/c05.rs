//! C05 — rejected requests report exactly the status their fault calls for.
//!
//! A run takes one well-formed seed message (precondition: the tree under test accepts
//! it), delivers every single fault at every position of it, then a batch of seeded
//! fault sequences (tree-level faults followed by byte-level link faults).

use crate::cbor::{self, enc, replace, V};
use crate::core::Stats;
use crate::faults::{self, Case, Expect};
use crate::prng::Rng;
use crate::schema::{self, GenMode, MapSchema, Ty, PARAM_CMDS};
use crate::trace::{DeliverExpect, Step};

pub struct Plan {
    pub runs: u64,
    /// runs 0..seed_runs are the command-byte table and the per-seed single-fault passes;
    /// runs seed_runs.. are robustness sessions (the C04 workload) judged by the status set only
    pub seed_runs: u64,
    pub sequences_per_run: usize,
}

pub fn plan(tier: &str) -> Plan {
    match tier {
        "thorough" => Plan { runs: 1 + 6 * 2002 + 200_000, seed_runs: 1 + 6 * 2002, sequences_per_run: 160 },
        "selfcheck" => Plan { runs: 1 + 6 * 2002 + 200_000, seed_runs: 1 + 6 * 2002, sequences_per_run: 40 },
        _ => Plan { runs: 1 + 6 * 130 + 8_000, seed_runs: 1 + 6 * 130, sequences_per_run: 120 },
    }
}

pub struct SeedMsg {
    pub cmd: u8,
    pub schema: MapSchema,
    pub root: V,
    pub mode: GenMode,
}

pub fn seed_for_run(seed: u64, run: u64) -> Option<SeedMsg> {
    if run == 0 {
        return None;
    }
    let r = run - 1;
    let cmd = PARAM_CMDS[(r % 6) as usize];
    let idx = r / 6;
    let schema = schema::schema_for(cmd).unwrap();
    let mut rng = Rng::new(seed, run, 1);
    let mode = match idx {
        0 => GenMode::Max,
        1 => GenMode::Min,
        _ => GenMode::Random,
    };
    let mut root = schema::gen_map(&schema, &mut rng, mode);
    // keep the seed inside the message limit (random unbounded members can be large)
    let mut guard = 0;
    while enc(&root).len() + 1 > 2048 && guard < 8 {
        root = schema::gen_map(&schema, &mut rng, mode);
        guard += 1;
    }
    Some(SeedMsg { cmd, schema, root, mode })
}

fn case_step(c: Case) -> Step {
    Step::Deliver { delivered: c.delivered, expect: DeliverExpect::Fault(c.expect), class: c.class.to_string(), site: c.site, desc: c.desc }
}

fn seed_step(cmd: u8, root: &V) -> Step {
    let mut d = vec![cmd];
    cbor::enc_into(&mut d, root);
    Step::Deliver {
        delivered: d,
        expect: DeliverExpect::Precondition,
        class: "seed".into(),
        site: String::new(),
        desc: format!("well-formed seed for command 0x{:02x}: {}", cmd, cbor::show(root)),
    }
}

/// One random tree-level fault (the same classes as the single-fault pass).
/// Returns the new tree, the class, and whether a required member was removed.
fn random_tree_fault(schema: &MapSchema, root: &V, rng: &mut Rng) -> Option<(V, &'static str, bool)> {
    let sites = schema::walk(schema, root);
    if sites.is_empty() {
        return None;
    }
    for _ in 0..6 {
        let s = rng.pick(&sites).clone();
        match rng.below(6) {
            0 => {
                if let (true, Some((parent, idx))) = (s.required, &s.parent) {
                    let r = replace(root, parent, |old| match old {
                        V::M(mut m) => {
                            m.remove(*idx);
                            V::M(m)
                        }
                        o => o,
                    })?;
                    return Some((r, "remove_required", true));
                }
            }
            1 => {
                let opts: Vec<V> = vec![V::U(1), V::N(0), V::B(vec![1]), cbor::t("a"), V::A(vec![]), V::M(vec![]), V::Bool(true)];
                let v = rng.pick(&opts).clone();
                return Some((replace(root, &s.path, |_| v)?, "wrong_type", false));
            }
            2 => {
                let k = rng.below(4) as u8;
                return Some((replace(root, &s.path, |o| V::Wide(Box::new(o), k))?, "non_minimal", false));
            }
            3 => {
                if matches!(s.ty, Ty::Bytes { .. } | Ty::Text { .. } | Ty::Array { .. } | Ty::Map(_) | Ty::CoseEcdh) {
                    return Some((replace(root, &s.path, |o| V::Indef(Box::new(o)))?, "indefinite", false));
                }
            }
            4 => {
                if let Some((parent, idx)) = &s.parent {
                    let r = replace(root, parent, |old| match old {
                        V::M(mut m) => {
                            let e = m[*idx].clone();
                            m.push(e);
                            V::M(m)
                        }
                        o => o,
                    })?;
                    return Some((r, "dup_key", false));
                }
            }
            _ => {
                if let Ty::Text { .. } = s.ty {
                    let r = replace(root, &s.path, |o| match o {
                        V::T(mut b) => {
                            b.push(0xff);
                            V::T(b)
                        }
                        o => o,
                    })?;
                    return Some((r, "bad_utf8", false));
                }
            }
        }
    }
    None
}

fn sequences(sm: &SeedMsg, rng: &mut Rng, n: usize, prev: &[u8]) -> Vec<Step> {
    let mut out = Vec::new();
    for _ in 0..n {
        let total = 2 + rng.usize_below(3);
        let n_tree = rng.usize_below(total + 1).min(2);
        let mut tree = sm.root.clone();
        let mut names: Vec<String> = Vec::new();
        let mut lacks = false;
        let mut only_removals = true;
        for _ in 0..n_tree {
            // after a wire-level deviation the tree can no longer be walked reliably: stop composing
            if let Some((t2, class, removed)) = random_tree_fault(&sm.schema, &tree, rng) {
                tree = t2;
                names.push(class.to_string());
                lacks |= removed;
                only_removals &= removed;
                if !removed {
                    break;
                }
            }
        }
        let mut d = vec![sm.cmd];
        cbor::enc_into(&mut d, &tree);
        let n_link = total - names.len().min(total);
        let mut link_applied = 0;
        for _ in 0..n_link {
            if let Some(f) = faults::random_link_fault(rng, &d, prev, 0x1ff) {
                f.apply(&mut d);
                names.push(f.kind().to_string());
                link_applied += 1;
            }
        }
        // "demonstrably lacks a required member": only member removals were applied and the bytes were not touched afterwards
        let lacks_required = lacks && only_removals && link_applied == 0;
        out.push(Step::Deliver {
            delivered: d,
            expect: DeliverExpect::Fault(Expect::StatusSet { lacks_required }),
            class: "sequence".into(),
            site: names.join("+"),
            desc: format!("fault sequence [{}] on seed for 0x{:02x}", names.join(", "), sm.cmd),
        });
    }
    out
}

/// The fault classes also hold for messages longer than the CTAPHID limit of 7609 bytes (the property
/// states no size bound): seeds whose one unbounded member is huge, then the usual faults.
fn oversize_cases(rng: &mut Rng) -> Vec<Step> {
    let mut steps = Vec::new();
    // (command, key of an unbounded member, is it text?)
    let targets: [(u8, i64, bool); 5] = [(0x02, 1, true), (0x06, 5, false), (0x0C, 2, false), (0x0A, 4, false), (0x01, 8, false)];
    for (cmd, key, is_text) in targets {
        let schema = schema::schema_for(cmd).unwrap();
        for size in [7700usize, 9000] {
            let mut root = schema::gen_map(&schema, rng, GenMode::Max);
            let big = if is_text { V::T(schema::utf8_text(rng, size)) } else { V::B(rng.bytes(size)) };
            if let V::M(m) = &mut root {
                match m.iter_mut().find(|(k, _)| *k == cbor::int(key)) {
                    Some(e) => e.1 = big,
                    None => {
                        m.push((cbor::int(key), big));
                        cbor::sort_canonical(m);
                    }
                }
            }
            steps.push(seed_step(cmd, &root));
            let good = {
                let mut d = vec![cmd];
                cbor::enc_into(&mut d, &root);
                d
            };
            let site = format!("oversize message of {} bytes", good.len());
            // removal of each required top-level member
            for s in schema::walk(&schema, &root) {
                if let (true, Some((parent, idx))) = (s.required, &s.parent) {
                    if parent.is_empty() {
                        let r = replace(&root, parent, |old| match old {
                            V::M(mut m) => {
                                m.remove(*idx);
                                V::M(m)
                            }
                            o => o,
                        })
                        .unwrap();
                        let mut d = vec![cmd];
                        cbor::enc_into(&mut d, &r);
                        steps.push(Step::Deliver { delivered: d, expect: DeliverExpect::Fault(Expect::MustReject(faults::ST_MISSING_PARAMETER)), class: "remove_required".into(), site: format!("{} ({})", s.name, site), desc: format!("remove required member {} of an {}", s.name, site) });
                    }
                }
            }
            for k in [1usize, 12, good.len() / 2, 7609, 7610, good.len() - 1] {
                if k < good.len() {
                    steps.push(Step::Deliver { delivered: good[..k].to_vec(), expect: DeliverExpect::Fault(Expect::MustReject(faults::ST_INVALID_CBOR)), class: "truncate".into(), site: site.clone(), desc: format!("truncate({}) of an {}", k, site) });
                }
            }
            for bad_cmd in [0x03u8, 0x0D, 0x40, 0xff] {
                let mut d = good.clone();
                d[0] = bad_cmd;
                steps.push(Step::Deliver { delivered: d, expect: DeliverExpect::Fault(Expect::MustReject(faults::ST_INVALID_COMMAND)), class: "command_byte".into(), site: site.clone(), desc: format!("command byte 0x{:02x} in front of an {}", bad_cmd, site) });
            }
        }
    }
    steps
}

pub fn gen(seed: u64, run: u64, tier: &str) -> Vec<Step> {
    let p = plan(tier);
    if run >= p.seed_runs {
        // "the status observed on every rejected input of the robustness runs must lie in the
        // three-element set": the C04 workload, judged here by its rejection statuses only
        return crate::c04::gen(seed, run - p.seed_runs + 1_000_003, "quick")
            .into_iter()
            .filter_map(|st| match st {
                Step::Deliver { delivered, class, desc, .. } if !class.starts_with("sweep") => Some(Step::Deliver {
                    delivered,
                    expect: DeliverExpect::Fault(Expect::StatusSet { lacks_required: false }),
                    class: "robustness".into(),
                    site: class,
                    desc,
                }),
                _ => None,
            })
            .collect();
    }
    let mut rng = Rng::new(seed, run, 2);
    if run == 0 {
        // command-byte table with four payload kinds per byte
        let mc = seed_for_run(seed, 1).unwrap();
        let valid = enc(&mc.root);
        let mut steps: Vec<Step> = faults::command_byte_cases(&valid, &mut rng).into_iter().map(case_step).collect();
        steps.extend(oversize_cases(&mut rng));
        return steps;
    }
    let sm = seed_for_run(seed, run).unwrap();
    let mut steps = vec![seed_step(sm.cmd, &sm.root)];
    for c in faults::single_faults(sm.cmd, &sm.schema, &sm.root, &mut rng) {
        steps.push(case_step(c));
    }
    let prev = {
        // a previous, longer message for the splice fault
        let other = schema::gen_map(&schema::make_credential(), &mut rng, GenMode::Max);
        let mut d = vec![0x01];
        cbor::enc_into(&mut d, &other);
        d
    };
    steps.extend(sequences(&sm, &mut rng, p.sequences_per_run, &prev));
    steps
}

/// Bookkeeping after each executed step.
pub fn account(step: &Step, outcome: &str, stats: &mut Stats) {
    if let Step::Deliver { class, site, delivered, expect, desc } = step {
        if outcome == "skipped" {
            return;
        }
        stats.evaluations += 1;
        stats.real_calls += 3;
        stats.outcome(&outcome[..outcome.find(',').unwrap_or(outcome.len())]);
        match expect {
            DeliverExpect::Precondition => {}
            _ if class == "robustness" => {
                for tag in site.split(',') {
                    if let Some(k) = tag.strip_prefix("link_") {
                        stats.fault(k);
                    } else if let Some(k) = tag.strip_prefix("structure_") {
                        stats.fault(&format!("structure:{}", k));
                    }
                }
                if outcome.starts_with("Err") {
                    stats.probe("robustness_rejection_status_checked");
                }
            }
            _ => stats.fault(class),
        }
        let cmd = delivered.first().map(|b| format!("{:02x}", b)).unwrap_or_else(|| "--".into());
        // member path class: positions (digits) are dropped so that offsets do not inflate the count
        let site: String = site.chars().filter(|c| !c.is_ascii_digit()).collect();
        let oc = &outcome[..outcome.find(',').unwrap_or(outcome.len())];
        stats.distinct(&[&cmd, class, &site, oc]);
        if let DeliverExpect::Fault(Expect::IfRejected(_)) = expect {
            if outcome.starts_with("Err") {
                stats.probe("conditional_fault_rejected");
            } else {
                stats.probe("conditional_fault_accepted");
            }
        }
        if class == "truncate" && outcome.starts_with("Err(0x12)") {
            stats.probe("truncation_rejected_0x12");
        }
        if class == "remove_required" && outcome.starts_with("Err(0x14)") {
            stats.probe("status_0x14_observed");
        }
        if class == "command_byte" && outcome.starts_with("Err(0x01)") {
            stats.probe("status_0x01_observed");
        }
        if class == "past_bound" && desc.contains("rp.id") {
            stats.probe("over_capacity_reached_String256");
        }
        if stats.samples.len() < 6 && (stats.evaluations % 977 == 1) {
            stats.sample(crate::json::obj(vec![
                ("class", crate::json::s(class.clone())),
                ("desc", crate::json::s(desc.clone())),
                ("delivered_hex", crate::json::s(crate::json::hex(&delivered[..delivered.len().min(96)]))),
                ("outcome", crate::json::s(outcome)),
            ]));
        }
    }
}

/// Model-level minimisation: drop optional members from the seed and shorten it while some
/// single fault of the same class on the same member still fires the same rule.
pub fn minimise(seed: u64, run: u64, rule: &str, class: &str, site: &str) -> Option<Vec<Step>> {
    use crate::trace::{run_trace, Prop};
    let sm = seed_for_run(seed, run)?;
    if class == "sequence" || class == "seed" {
        return None;
    }
    let want_member = site.to_string();
    let mut root = sm.root.clone();
    let mut best: Option<Vec<Step>> = None;
    let fires = |root: &V, rng_seed: u64| -> Option<Vec<Step>> {
        let mut rng = Rng::new(rng_seed, run, 2);
        for c in faults::single_faults(sm.cmd, &sm.schema, root, &mut rng) {
            if c.class != class {
                continue;
            }
            if !want_member.is_empty() && !want_member.starts_with('$') && c.site != want_member {
                continue;
            }
            let steps = vec![seed_step(sm.cmd, root), case_step(c)];
            let (res, _, _) = run_trace(&steps, Prop::C05, false);
            if let Some((1, f)) = res {
                if f.rule == rule {
                    return Some(steps);
                }
            }
        }
        None
    };
    let mut budget = 150;
    loop {
        let mut progressed = false;
        let sites = schema::walk(&sm.schema, &root);
        for s in sites.iter().rev() {
            if budget == 0 {
                break;
            }
            if let (false, Some((parent, idx))) = (s.required, &s.parent) {
                let cand = replace(&root, parent, |old| match old {
                    V::M(mut m) => {
                        m.remove(*idx);
                        V::M(m)
                    }
                    o => o,
                });
                if let Some(cand) = cand {
                    budget -= 1;
                    if let Some(st) = fires(&cand, seed) {
                        root = cand;
                        best = Some(st);
                        progressed = true;
                        break;
                    }
                }
            }
        }
        if !progressed || budget == 0 {
            break;
        }
    }
    if best.is_none() {
        best = fires(&root, seed);
    }
    best
}
