//! Minimal JSON value, writer and parser (no third-party crate: nothing outside
//! what /repo already locks is used by the harness).

use std::collections::BTreeMap;

#[derive(Clone, Debug, PartialEq)]
pub enum J {
    Null,
    Bool(bool),
    Int(i64),
    Num(f64),
    Str(String),
    Arr(Vec<J>),
    /// insertion-ordered object
    Obj(Vec<(String, J)>),
}

pub fn obj(pairs: Vec<(&str, J)>) -> J {
    J::Obj(pairs.into_iter().map(|(k, v)| (k.to_string(), v)).collect())
}

pub fn s(x: impl Into<String>) -> J {
    J::Str(x.into())
}

pub fn i(x: impl TryInto<i64>) -> J {
    J::Int(x.try_into().unwrap_or(i64::MAX))
}

pub fn counts(m: &BTreeMap<String, u64>) -> J {
    J::Obj(m.iter().map(|(k, v)| (k.clone(), J::Int(*v as i64))).collect())
}

pub fn hex(b: &[u8]) -> String {
    let mut o = String::with_capacity(b.len() * 2);
    for x in b {
        o.push_str(&format!("{:02x}", x));
    }
    o
}

pub fn unhex(s: &str) -> Option<Vec<u8>> {
    if s.len() % 2 != 0 {
        return None;
    }
    (0..s.len() / 2)
        .map(|k| u8::from_str_radix(s.get(2 * k..2 * k + 2)?, 16).ok())
        .collect()
}

impl J {
    pub fn get(&self, k: &str) -> Option<&J> {
        match self {
            J::Obj(v) => v.iter().find(|(kk, _)| kk == k).map(|(_, v)| v),
            _ => None,
        }
    }
    pub fn str(&self) -> Option<&str> {
        match self {
            J::Str(s) => Some(s),
            _ => None,
        }
    }
    pub fn int(&self) -> Option<i64> {
        match self {
            J::Int(i) => Some(*i),
            J::Num(f) => Some(*f as i64),
            _ => None,
        }
    }
    pub fn arr(&self) -> Option<&[J]> {
        match self {
            J::Arr(a) => Some(a),
            _ => None,
        }
    }
    pub fn bool(&self) -> Option<bool> {
        match self {
            J::Bool(b) => Some(*b),
            _ => None,
        }
    }
    pub fn set(&mut self, k: &str, v: J) {
        if let J::Obj(o) = self {
            if let Some(e) = o.iter_mut().find(|(kk, _)| kk == k) {
                e.1 = v;
            } else {
                o.push((k.to_string(), v));
            }
        }
    }

    pub fn write(&self, out: &mut String, indent: usize, pretty: bool) {
        let pad = |out: &mut String, n: usize| {
            if pretty {
                out.push('\n');
                for _ in 0..n {
                    out.push(' ');
                }
            }
        };
        match self {
            J::Null => out.push_str("null"),
            J::Bool(b) => out.push_str(if *b { "true" } else { "false" }),
            J::Int(i) => out.push_str(&i.to_string()),
            J::Num(f) => {
                if f.is_finite() {
                    out.push_str(&format!("{:.3}", f))
                } else {
                    out.push_str("0")
                }
            }
            J::Str(s) => {
                out.push('"');
                for c in s.chars() {
                    match c {
                        '"' => out.push_str("\\\""),
                        '\\' => out.push_str("\\\\"),
                        '\n' => out.push_str("\\n"),
                        '\r' => out.push_str("\\r"),
                        '\t' => out.push_str("\\t"),
                        c if (c as u32) < 0x20 => out.push_str(&format!("\\u{:04x}", c as u32)),
                        c => out.push(c),
                    }
                }
                out.push('"');
            }
            J::Arr(a) => {
                out.push('[');
                for (k, v) in a.iter().enumerate() {
                    if k > 0 {
                        out.push(',');
                    }
                    pad(out, indent + 1);
                    v.write(out, indent + 1, pretty);
                }
                if !a.is_empty() {
                    pad(out, indent);
                }
                out.push(']');
            }
            J::Obj(o) => {
                out.push('{');
                for (k, (key, v)) in o.iter().enumerate() {
                    if k > 0 {
                        out.push(',');
                    }
                    pad(out, indent + 1);
                    J::Str(key.clone()).write(out, 0, false);
                    out.push(':');
                    if pretty {
                        out.push(' ');
                    }
                    v.write(out, indent + 1, pretty);
                }
                if !o.is_empty() {
                    pad(out, indent);
                }
                out.push('}');
            }
        }
    }

    pub fn pretty(&self) -> String {
        let mut o = String::new();
        self.write(&mut o, 0, true);
        o.push('\n');
        o
    }

    pub fn compact(&self) -> String {
        let mut o = String::new();
        self.write(&mut o, 0, false);
        o
    }
}

pub fn parse(text: &str) -> Result<J, String> {
    let b = text.as_bytes();
    let mut p = 0usize;
    let v = parse_value(b, &mut p)?;
    skip_ws(b, &mut p);
    if p != b.len() {
        return Err(format!("trailing characters at {}", p));
    }
    Ok(v)
}

fn skip_ws(b: &[u8], p: &mut usize) {
    while *p < b.len() && matches!(b[*p], b' ' | b'\n' | b'\r' | b'\t') {
        *p += 1;
    }
}

fn parse_value(b: &[u8], p: &mut usize) -> Result<J, String> {
    skip_ws(b, p);
    if *p >= b.len() {
        return Err("unexpected end".into());
    }
    match b[*p] {
        b'n' if b[*p..].starts_with(b"null") => {
            *p += 4;
            Ok(J::Null)
        }
        b't' if b[*p..].starts_with(b"true") => {
            *p += 4;
            Ok(J::Bool(true))
        }
        b'f' if b[*p..].starts_with(b"false") => {
            *p += 5;
            Ok(J::Bool(false))
        }
        b'"' => Ok(J::Str(parse_string(b, p)?)),
        b'[' => {
            *p += 1;
            let mut a = Vec::new();
            skip_ws(b, p);
            if *p < b.len() && b[*p] == b']' {
                *p += 1;
                return Ok(J::Arr(a));
            }
            loop {
                a.push(parse_value(b, p)?);
                skip_ws(b, p);
                match b.get(*p) {
                    Some(b',') => *p += 1,
                    Some(b']') => {
                        *p += 1;
                        return Ok(J::Arr(a));
                    }
                    _ => return Err(format!("expected , or ] at {}", p)),
                }
            }
        }
        b'{' => {
            *p += 1;
            let mut o = Vec::new();
            skip_ws(b, p);
            if *p < b.len() && b[*p] == b'}' {
                *p += 1;
                return Ok(J::Obj(o));
            }
            loop {
                skip_ws(b, p);
                let k = parse_string(b, p)?;
                skip_ws(b, p);
                if b.get(*p) != Some(&b':') {
                    return Err(format!("expected : at {}", p));
                }
                *p += 1;
                let v = parse_value(b, p)?;
                o.push((k, v));
                skip_ws(b, p);
                match b.get(*p) {
                    Some(b',') => *p += 1,
                    Some(b'}') => {
                        *p += 1;
                        return Ok(J::Obj(o));
                    }
                    _ => return Err(format!("expected , or }} at {}", p)),
                }
            }
        }
        _ => {
            let start = *p;
            while *p < b.len() && matches!(b[*p], b'-' | b'+' | b'.' | b'e' | b'E' | b'0'..=b'9') {
                *p += 1;
            }
            let t = std::str::from_utf8(&b[start..*p]).map_err(|e| e.to_string())?;
            if let Ok(i) = t.parse::<i64>() {
                Ok(J::Int(i))
            } else {
                t.parse::<f64>().map(J::Num).map_err(|_| format!("bad number {:?} at {}", t, start))
            }
        }
    }
}

fn parse_string(b: &[u8], p: &mut usize) -> Result<String, String> {
    if b.get(*p) != Some(&b'"') {
        return Err(format!("expected string at {}", p));
    }
    *p += 1;
    let mut out = Vec::new();
    loop {
        let c = *b.get(*p).ok_or("unterminated string")?;
        *p += 1;
        match c {
            b'"' => break,
            b'\\' => {
                let e = *b.get(*p).ok_or("bad escape")?;
                *p += 1;
                match e {
                    b'n' => out.push(b'\n'),
                    b'r' => out.push(b'\r'),
                    b't' => out.push(b'\t'),
                    b'b' => out.push(8),
                    b'f' => out.push(12),
                    b'u' => {
                        let h = std::str::from_utf8(b.get(*p..*p + 4).ok_or("bad \\u")?).map_err(|e| e.to_string())?;
                        let cp = u32::from_str_radix(h, 16).map_err(|e| e.to_string())?;
                        *p += 4;
                        let ch = char::from_u32(cp).unwrap_or('\u{fffd}');
                        let mut buf = [0u8; 4];
                        out.extend_from_slice(ch.encode_utf8(&mut buf).as_bytes());
                    }
                    other => out.push(other),
                }
            }
            c => out.push(c),
        }
    }
    String::from_utf8(out).map_err(|e| e.to_string())
}

#[cfg(test)]
mod tests {
    use super::*;
    #[test]
    fn roundtrip() {
        let v = obj(vec![
            ("a", J::Int(-3)),
            ("b", J::Arr(vec![J::Bool(true), J::Null, s("x\"y\n")])),
            ("c", obj(vec![])),
        ]);
        assert_eq!(parse(&v.pretty()).unwrap(), v);
        assert_eq!(parse(&v.compact()).unwrap(), v);
        assert_eq!(unhex(&hex(&[0, 1, 255])).unwrap(), vec![0, 1, 255]);
    }
}
