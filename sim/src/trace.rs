//! Traces: the unit of execution and of replay. A run is a list of `Step`s executed
//! in order against one `Device` whose buffers and mock authenticator persist across
//! steps. `seed -> trace` (the profile generators) and `trace -> event log` (`exec`) are
//! pure functions.

use crate::faults::Expect;
use crate::json::{self, obj, s, J};
use crate::prng::Fnv;
use crate::real::{self, Decoded};

/// capacity of the device's receive buffer (larger than the CTAPHID message limit: other transports exist)
pub const RX_CAP: usize = 16384;

/// The rule that fired, and what was observed.
#[derive(Clone, Debug, PartialEq)]
pub struct Finding {
    pub rule: String,
    pub detail: String,
}

fn finding(rule: &str, detail: String) -> Option<Finding> {
    Some(Finding { rule: rule.to_string(), detail })
}

#[derive(Clone, Debug, PartialEq)]
pub enum DeliverExpect {
    /// monitors only (no crash, deterministic)
    None,
    /// the message is a well-formed seed: if the tree under test rejects it, the cases that
    /// follow (up to the next precondition) are skipped; never a violation
    Precondition,
    Fault(Expect),
}

#[derive(Clone, Debug, PartialEq)]
pub enum Step {
    /// the link delivers these bytes into the device's receive buffer; the device decodes them
    Deliver { delivered: Vec<u8>, expect: DeliverExpect, class: String, site: String, desc: String },
    /// the delivered payload is offered to the decoder of a nested public type
    DeliverNested { ty: String, payload: Vec<u8>, desc: String },
    /// a fault-free message whose over-long text members must come back as the documented lossy result
    /// (C04: "... yield an error or the documented lossy result, never a crash"): (member, text sent)
    LossyCheck { delivered: Vec<u8>, sent: Vec<(String, Vec<u8>)> },
    /// the authenticator application builds authenticator data (C07)
    AuthData(crate::c07::AuthDataSpec),
    /// a CTAP1 response is appended to a caller-owned, pre-filled buffer (C09)
    U2fRespond(crate::c09::U2fSpec),
    /// a request reaches the dispatcher and the scripted authenticator (C10)
    Dispatch(crate::c10::DispatchSpec),
    /// a CTAP2 response is written into the persistent transport buffer of capacity N (C17)
    Respond(crate::c17::RespondSpec),
    /// a request is generated from an entropy string (C19)
    Generate(crate::c19::GenSpec),
    /// soak: the same exchange `times` times in a row on a device that is never restarted
    /// (state the code under test keeps between calls - counters, caches - crosses 8- and 16-bit limits)
    Repeat { times: u64, step: Box<Step> },
}

fn expect_to_json(e: &DeliverExpect) -> J {
    match e {
        DeliverExpect::None => obj(vec![("kind", s("none"))]),
        DeliverExpect::Precondition => obj(vec![("kind", s("precondition"))]),
        DeliverExpect::Fault(Expect::MustReject(st)) => obj(vec![("kind", s("must_reject")), ("status", json::i(*st))]),
        DeliverExpect::Fault(Expect::IfRejected(st)) => obj(vec![("kind", s("if_rejected")), ("status", json::i(*st))]),
        DeliverExpect::Fault(Expect::StatusSet { lacks_required }) => {
            obj(vec![("kind", s("status_set")), ("lacks_required", J::Bool(*lacks_required))])
        }
        DeliverExpect::Fault(Expect::MustAccept) => obj(vec![("kind", s("must_accept"))]),
    }
}

fn expect_from_json(j: &J) -> Option<DeliverExpect> {
    Some(match j.get("kind")?.str()? {
        "none" => DeliverExpect::None,
        "precondition" => DeliverExpect::Precondition,
        "must_reject" => DeliverExpect::Fault(Expect::MustReject(j.get("status")?.int()? as u8)),
        "if_rejected" => DeliverExpect::Fault(Expect::IfRejected(j.get("status")?.int()? as u8)),
        "status_set" => DeliverExpect::Fault(Expect::StatusSet { lacks_required: j.get("lacks_required")?.bool()? }),
        "must_accept" => DeliverExpect::Fault(Expect::MustAccept),
        _ => return None,
    })
}

impl Step {
    pub fn to_json(&self) -> J {
        match self {
            Step::Deliver { delivered, expect, class, site, desc } => obj(vec![
                ("op", s("deliver")),
                ("class", s(class.clone())),
                ("site", s(site.clone())),
                ("desc", s(desc.clone())),
                ("expect", expect_to_json(expect)),
                ("len", json::i(delivered.len())),
                ("delivered", s(json::hex(delivered))),
            ]),
            Step::DeliverNested { ty, payload, desc } => obj(vec![
                ("op", s("deliver_nested")),
                ("type", s(ty.clone())),
                ("desc", s(desc.clone())),
                ("len", json::i(payload.len())),
                ("payload", s(json::hex(payload))),
            ]),
            Step::LossyCheck { delivered, sent } => obj(vec![
                ("op", s("lossy_check")),
                ("len", json::i(delivered.len())),
                ("delivered", s(json::hex(delivered))),
                ("sent", J::Arr(sent.iter().map(|(k, v)| obj(vec![("member", s(k.clone())), ("text_hex", s(json::hex(v)))])).collect())),
            ]),
            Step::AuthData(x) => x.to_json(),
            Step::U2fRespond(x) => x.to_json(),
            Step::Dispatch(x) => x.to_json(),
            Step::Respond(x) => x.to_json(),
            Step::Generate(x) => x.to_json(),
            Step::Repeat { times, step } => obj(vec![("op", s("repeat")), ("times", J::Int(*times as i64)), ("step", step.to_json())]),
        }
    }

    pub fn from_json(j: &J) -> Option<Step> {
        Some(match j.get("op")?.str()? {
            "deliver" => Step::Deliver {
                delivered: json::unhex(j.get("delivered")?.str()?)?,
                expect: expect_from_json(j.get("expect")?)?,
                class: j.get("class")?.str()?.to_string(),
                site: j.get("site").and_then(|x| x.str()).unwrap_or("").to_string(),
                desc: j.get("desc")?.str()?.to_string(),
            },
            "deliver_nested" => Step::DeliverNested {
                ty: j.get("type")?.str()?.to_string(),
                payload: json::unhex(j.get("payload")?.str()?)?,
                desc: j.get("desc")?.str()?.to_string(),
            },
            "lossy_check" => Step::LossyCheck {
                delivered: json::unhex(j.get("delivered")?.str()?)?,
                sent: j.get("sent")?.arr()?.iter().filter_map(|e| Some((e.get("member")?.str()?.to_string(), json::unhex(e.get("text_hex")?.str()?)?))).collect(),
            },
            "auth_data" => Step::AuthData(crate::c07::AuthDataSpec::from_json(j)?),
            "u2f_respond" => Step::U2fRespond(crate::c09::U2fSpec::from_json(j)?),
            "dispatch" => Step::Dispatch(crate::c10::DispatchSpec::from_json(j)?),
            "respond" => Step::Respond(crate::c17::RespondSpec::from_json(j)?),
            "generate" => Step::Generate(crate::c19::GenSpec::from_json(j)?),
            "repeat" => Step::Repeat { times: j.get("times")?.int()? as u64, step: Box::new(Step::from_json(j.get("step")?)?) },
            _ => return None,
        })
    }

    /// Smaller variants of this step whose oracle is still derived from the step itself
    /// (so that a shrunk step cannot become a false counterexample).
    pub fn shrinks(&self) -> Vec<Step> {
        match self {
            Step::Deliver { delivered, expect: DeliverExpect::None, class, site, desc } => {
                shrink_bytes(delivered)
                    .into_iter()
                    .map(|d| Step::Deliver { delivered: d, expect: DeliverExpect::None, class: class.clone(), site: site.clone(), desc: desc.clone() })
                    .collect()
            }
            Step::DeliverNested { ty, payload, desc } => shrink_bytes(payload)
                .into_iter()
                .map(|d| Step::DeliverNested { ty: ty.clone(), payload: d, desc: desc.clone() })
                .collect(),
            Step::AuthData(x) => x.shrinks().into_iter().map(Step::AuthData).collect(),
            Step::U2fRespond(x) => x.shrinks().into_iter().map(Step::U2fRespond).collect(),
            Step::Dispatch(x) => x.shrinks().into_iter().map(Step::Dispatch).collect(),
            Step::Respond(x) => x.shrinks().into_iter().map(Step::Respond).collect(),
            Step::Generate(x) => x.shrinks().into_iter().map(Step::Generate).collect(),
            Step::Repeat { times, step } => {
                // first the exchange once (if that still fails no history is needed), then fewer repetitions, then a smaller exchange
                let mut v = vec![(**step).clone()];
                for t in [300u64, 65_540] {
                    if t < *times {
                        v.push(Step::Repeat { times: t, step: step.clone() });
                    }
                }
                v.extend(step.shrinks().into_iter().take(24).map(|x| Step::Repeat { times: *times, step: Box::new(x) }));
                v
            }
            _ => vec![],
        }
    }
}

/// Candidate reductions of a byte string: drop halves, quarters, ..., single bytes near the
/// end, and zero bytes. Bounded number of candidates.
pub fn shrink_bytes(b: &[u8]) -> Vec<Vec<u8>> {
    let mut out = Vec::new();
    let n = b.len();
    if n == 0 {
        return out;
    }
    let mut chunk = n / 2;
    while chunk >= 1 {
        let mut start = 0;
        let mut made = 0;
        while start < n && made < 16 {
            let end = (start + chunk).min(n);
            let mut v = b[..start].to_vec();
            v.extend_from_slice(&b[end..]);
            out.push(v);
            start += chunk;
            made += 1;
        }
        if chunk == 1 {
            break;
        }
        chunk /= 2;
    }
    // truncations
    for k in [n - 1, n / 2, 1] {
        if k < n {
            out.push(b[..k].to_vec());
        }
    }
    // simplify bytes towards zero (first 48 non-zero positions after the command byte)
    let mut changed = 0;
    for i in 1..n {
        if b[i] != 0 && changed < 48 {
            let mut v = b.to_vec();
            v[i] = 0;
            out.push(v);
            changed += 1;
        }
    }
    out
}

/// Event log: always hashed; lines kept only when asked (replay, samples).
pub struct Log {
    pub h: Fnv,
    pub lines: Option<Vec<String>>,
    pub n: u64,
}

impl Log {
    pub fn new(keep: bool) -> Log {
        Log { h: Fnv::new(), lines: if keep { Some(Vec::new()) } else { None }, n: 0 }
    }
    pub fn event(&mut self, line: &str) {
        self.n += 1;
        self.h.write_str(line);
        if let Some(l) = &mut self.lines {
            if l.len() < 4096 {
                l.push(line.to_string());
            }
        }
    }
    pub fn hash(&self) -> u64 {
        self.h.0
    }
}

/// Which property's rules are armed while executing.
#[derive(Clone, Copy, Debug, PartialEq)]
pub enum Prop {
    C04,
    C05,
    C07,
    C09,
    C10,
    C17,
    C19,
}

impl Prop {
    pub fn id(&self) -> &'static str {
        match self {
            Prop::C04 => "C04",
            Prop::C05 => "C05",
            Prop::C07 => "C07",
            Prop::C09 => "C09",
            Prop::C10 => "C10",
            Prop::C17 => "C17",
            Prop::C19 => "C19",
        }
    }
    pub fn parse(sv: &str) -> Option<Prop> {
        Some(match sv {
            "C04" => Prop::C04,
            "C05" => Prop::C05,
            "C07" => Prop::C07,
            "C09" => Prop::C09,
            "C10" => Prop::C10,
            "C17" => Prop::C17,
            "C19" => Prop::C19,
            _ => return None,
        })
    }
}

/// The simulated device: everything that persists across the exchanges of one session.
pub struct Device {
    /// receive buffer; bytes after the current message are whatever earlier messages left there
    pub rx: Vec<u8>,
    pub rx_len: usize,
    scratch: Vec<u8>,
    pub exchanges: u64,
    /// set by a failed precondition: following fault cases are skipped until the next precondition
    pub skipping: bool,
    pub skipped_seeds: u64,
    pub used_seeds: u64,
    /// persistent transport buffers, one per capacity (C17)
    pub tx: std::collections::BTreeMap<usize, Box<dyn crate::c17::TxBuf>>,
    /// the two scripted authenticators (C10) keep their call logs and counters across the session
    pub mocks: crate::c10::Mocks,
    /// caller-owned CTAP1 response buffers, one per capacity (C09)
    pub u2f: std::collections::BTreeMap<usize, Box<dyn crate::c09::U2fBuf>>,
    pub last_outcome: String,
    /// C04: outcome of the first delivery of each distinct message in this session (keyed by content hash)
    pub seen: std::collections::BTreeMap<(u64, usize), String>,
    /// C17: the reference encoding of each distinct response of this session (computed at its first use only,
    /// so that reference calls do not sit between every two calls under test)
    pub refs: std::collections::BTreeMap<u64, Vec<u8>>,
}

impl Device {
    pub fn new() -> Device {
        Device {
            rx: vec![0xA5; RX_CAP + 64],
            rx_len: 0,
            scratch: Vec::with_capacity(RX_CAP + 256),
            exchanges: 0,
            skipping: false,
            skipped_seeds: 0,
            used_seeds: 0,
            tx: Default::default(),
            mocks: crate::c10::Mocks::new(),
            u2f: Default::default(),
            last_outcome: String::new(),
            seen: Default::default(),
            refs: Default::default(),
        }
    }

    /// The link writes the delivered bytes over the start of the receive buffer.
    pub fn receive(&mut self, delivered: &[u8]) {
        let n = delivered.len().min(RX_CAP);
        self.rx[..n].copy_from_slice(&delivered[..n]);
        self.rx_len = n;
    }
}

pub const STATUS_SET: [u8; 3] = [0x01, 0x12, 0x14];

/// Execute one step against the device. Returns the finding of the armed property, if any.
pub fn exec(dev: &mut Device, step: &Step, prop: Prop, log: &mut Log) -> Option<Finding> {
    dev.exchanges += 1;
    match step {
        Step::Deliver { delivered, expect, class, site: _, desc } => {
            if *expect == DeliverExpect::Precondition {
                dev.skipping = false;
            } else if dev.skipping && matches!(expect, DeliverExpect::Fault(_)) {
                log.event("deliver skipped (seed not accepted by this tree)");
                dev.last_outcome = "skipped".into();
                return None;
            }
            if let Some(l) = class.strip_prefix("sweep:") {
                // exhaustive short inputs (plain enumeration; reported separately in the evidence)
                let len: usize = l.parse().unwrap_or(0);
                return match crate::c04::sweep(delivered, len.max(delivered.len())) {
                    Ok((h, n)) => {
                        log.event(&format!("sweep prefix={} len={} n={} outcomes={:016x}", json::hex(delivered), len, n, h));
                        dev.last_outcome = format!("sweep-ok:{}", n);
                        None
                    }
                    Err((bytes, what, panicked)) => {
                        log.event(&format!("sweep prefix={} len={} failed at {}", json::hex(delivered), len, json::hex(&bytes)));
                        dev.last_outcome = format!("sweep-fail:{}", json::hex(&bytes));
                        finding(if panicked { "panic" } else { "nondeterministic" }, format!("{} for input {}", what, json::hex(&bytes)))
                    }
                };
            }
            if let Some(n) = class.strip_prefix("soak:") {
                // the same message delivered n times to a device that is never restarted: every answer equals the first
                let n: u64 = n.parse().unwrap_or(1);
                return match crate::c04::soak(delivered, n) {
                    Ok(first) => {
                        log.event(&format!("soak len={} n={} -> {}", delivered.len(), n, first));
                        dev.last_outcome = format!("soak-ok:{}", n);
                        None
                    }
                    Err((k, what, panicked)) => {
                        log.event(&format!("soak len={} n={} failed at delivery {}", delivered.len(), n, k));
                        dev.last_outcome = format!("soak-fail:{}", k);
                        finding(if panicked { "panic" } else { "history_dependent" }, format!("delivery {} of {} of the same {}-byte message: {} [{}]", k, n, delivered.len(), what, desc))
                    }
                };
            }
            dev.receive(delivered);
            let pad = 1 + (dev.exchanges as usize % 7);
            let tail = (dev.exchanges as u8).wrapping_mul(37) ^ 0x5A;
            let len = dev.rx_len;
            let (d, diff) = real::decode_monitored(&dev.rx, len, &mut dev.scratch, pad, tail);
            log.event(&format!("deliver {} len={} -> {}", class, len, d.short()));
            dev.last_outcome = d.short();
            if let Decoded::Panic(m) = &d {
                if prop == Prop::C05 && *expect == DeliverExpect::Precondition {
                    // a well-formed seed that crashes the decoder is not a statement about rejected
                    // requests (it is C04's finding); for C05 the seed is simply unusable
                    dev.skipping = true;
                    dev.skipped_seeds += 1;
                    return None;
                }
                return finding("panic", format!("decoding panicked: {} [{}]", m, desc));
            }
            if prop == Prop::C04 {
                if let Some(df) = diff {
                    return finding("nondeterministic", format!("{} [{}]", df, desc));
                }
                // the same bytes always give the same result, whatever was delivered in between
                let key = (crate::prng::fnv(delivered), delivered.len());
                match dev.seen.get(&key) {
                    Some(first) if *first != d.short() => {
                        return finding(
                            "history_dependent",
                            format!("the same {}-byte message was answered {} earlier in this session and {} now [{}]", delivered.len(), first, d.short(), desc),
                        );
                    }
                    Some(_) => {}
                    None => {
                        dev.seen.insert(key, d.short());
                    }
                }
                if class == "recovery" {
                    // once faults stop the next request is served identically: compare with a device that saw no earlier exchange
                    let mut fresh = Device::new();
                    fresh.receive(delivered);
                    let (d2, _) = real::decode_monitored(&fresh.rx, fresh.rx_len, &mut fresh.scratch, 3, 0x11);
                    if d2 != d {
                        return finding("recovery", format!("after the session the device answers {} but a fresh device answers {} [{}]", d.short(), d2.short(), desc));
                    }
                }
            }
            match expect {
                DeliverExpect::None => None,
                DeliverExpect::Precondition => {
                    if let Decoded::Err(st) = d {
                        dev.skipping = true;
                        dev.skipped_seeds += 1;
                        // why a well-formed seed is rejected is other properties' business, but ANY rejection
                        // must carry one of the three codes
                        if prop == Prop::C05 && !STATUS_SET.contains(&st) {
                            return finding("status_set", format!("rejection status 0x{:02x} is outside {{0x01, 0x12, 0x14}} [{}]", st, desc));
                        }
                    } else {
                        dev.used_seeds += 1;
                    }
                    None
                }
                DeliverExpect::Fault(e) => {
                    if prop != Prop::C05 {
                        return None;
                    }
                    judge_fault(e, &d, class, desc)
                }
            }
        }
        Step::DeliverNested { ty, payload, desc } => {
            let r = real::decode_nested(ty, payload);
            match r {
                Ok(Some(u64::MAX)) => {
                    log.event(&format!("nested {} len={} -> DIFF", ty, payload.len()));
                    finding("nondeterministic", format!("two decodes of the same bytes as {} differ [{}]", ty, desc))
                }
                Ok(o) => {
                    log.event(&format!("nested {} len={} -> {:?}", ty, payload.len(), o.map(|h| format!("{:016x}", h))));
                    dev.last_outcome = if o.is_some() { "nested-ok".into() } else { "nested-err".into() };
                    None
                }
                Err(m) => {
                    log.event(&format!("nested {} len={} -> PANIC", ty, payload.len()));
                    finding("panic", format!("decoding as {} panicked: {} [{}]", ty, m, desc))
                }
            }
        }
        Step::LossyCheck { delivered, sent } => {
            let r = real::lossy_members(delivered);
            let got = match r {
                Err(p) => {
                    log.event("lossy_check -> PANIC");
                    return finding("panic", format!("decoding panicked: {}", p));
                }
                Ok(None) => {
                    log.event("lossy_check -> not accepted");
                    dev.last_outcome = "lossy-skip".into();
                    return None;
                }
                Ok(Some(g)) => g,
            };
            log.event(&format!("lossy_check members={}", got.len()));
            dev.last_outcome = "lossy-ok".into();
            for (member, text) in sent {
                let Some((_, dec)) = got.iter().find(|(m, _)| m == member) else { continue };
                let is_icon = member.ends_with("icon");
                let cap = if is_icon { 128 } else { 64 };
                if text.len() <= cap {
                    continue; // fidelity of values that fit is not this property's statement
                }
                dev.last_outcome = "lossy-overlong".into();
                match dec {
                    None if is_icon => {}
                    None => return finding("lossy_result", format!("{} of {} bytes was sent; the documented lossy result is its truncation, but the member is absent", member, text.len())),
                    Some(_) if is_icon => return finding("lossy_result", format!("{} of {} bytes was sent; the documented lossy result is that it is dropped, but a value is present", member, text.len())),
                    Some(d) => {
                        if d.len() > cap || !text.starts_with(d) || std::str::from_utf8(d).is_err() {
                            return finding(
                                "lossy_result",
                                format!("{} of {} bytes was sent; the decoded value ({} bytes: {}) is not a well-formed prefix of at most {} bytes of it", member, text.len(), d.len(), json::hex(&d[..d.len().min(80)]), cap),
                            );
                        }
                    }
                }
            }
            None
        }
        Step::AuthData(x) => crate::c07::exec(dev, x, log),
        Step::U2fRespond(x) => crate::c09::exec(dev, x, log),
        Step::Dispatch(x) => crate::c10::exec(dev, x, log),
        Step::Respond(x) => crate::c17::exec(dev, x, log),
        Step::Generate(x) => crate::c19::exec(dev, x, log),
        Step::Repeat { times, step } => {
            for i in 0..*times {
                // the first repetition is logged in full, the others only if something fires
                let mut quiet = Log::new(false);
                let f = if i == 0 { exec(dev, step, prop, log) } else { exec(dev, step, prop, &mut quiet) };
                if let Some(mut f) = f {
                    log.event(&format!("repeat: finding at repetition {} of {}", i + 1, times));
                    f.detail = format!("{} [repetition {} of {} of the same exchange on a device that is never restarted]", f.detail, i + 1, times);
                    return Some(f);
                }
            }
            log.event(&format!("repeat: {} repetitions done", times));
            None
        }
    }
}

fn judge_fault(e: &Expect, d: &Decoded, class: &str, desc: &str) -> Option<Finding> {
    match (e, d) {
        (Expect::MustReject(st), Decoded::Ok(v, _)) => finding(
            &format!("{}:accepted", class),
            format!("fault must be rejected with 0x{:02x} but the message was accepted as {} [{}]", st, v, desc),
        ),
        (Expect::MustReject(st), Decoded::Err(got)) if got != st => finding(
            &format!("{}:status", class),
            format!("fault must be rejected with 0x{:02x} but status was 0x{:02x} [{}]", st, got, desc),
        ),
        (Expect::IfRejected(st), Decoded::Err(got)) if got != st => finding(
            &format!("{}:status", class),
            format!("a rejection of this fault must carry 0x{:02x} but status was 0x{:02x} [{}]", st, got, desc),
        ),
        (Expect::StatusSet { .. }, Decoded::Err(got)) if !STATUS_SET.contains(got) => finding(
            "status_set",
            format!("rejection status 0x{:02x} is outside {{0x01, 0x12, 0x14}} [{}]", got, desc),
        ),
        (Expect::StatusSet { lacks_required: true }, Decoded::Ok(v, _)) => finding(
            "lacks_required:accepted",
            format!("message lacks a required parameter but was accepted as {} [{}]", v, desc),
        ),
        (Expect::MustAccept, Decoded::Err(got)) => finding(
            &format!("{}:rejected", class),
            format!("message must be accepted but was rejected with 0x{:02x} [{}]", got, desc),
        ),
        _ => None,
    }
}

/// Execute a whole trace on a fresh device. Returns (index of failing step, finding), the log hash.
pub fn run_trace(steps: &[Step], prop: Prop, keep_lines: bool) -> (Option<(usize, Finding)>, Log, Device) {
    let mut dev = Device::new();
    let mut log = Log::new(keep_lines);
    for (k, st) in steps.iter().enumerate() {
        if let Some(f) = exec(&mut dev, st, prop, &mut log) {
            return (Some((k, f)), log, dev);
        }
    }
    (None, log, dev)
}
