//! Supervisor, workers, minimiser, replay.
//!
//! `simctl run` is the parent: it splits the run range over worker processes (so that an
//! abort inside real code kills a worker, not the check), collects their results, turns
//! a dead worker into a replayable finding, minimises, replays, and writes a summary.

use crate::core::{feature_set, Stats, Violation, WorkerResult};
use crate::json::{self, obj, s, J};
use crate::trace::{self, run_trace, Device, Finding, Log, Prop, Step};
use std::io::Write;
use std::path::{Path, PathBuf};
use std::process::{Command, Stdio};
use std::time::{Duration, Instant};

pub const STACK: usize = 64 << 20;
/// a single exchange slower than this (repeatedly, in isolation) is reported by C04 as `slow`
pub const SLOW_MS: u64 = 1500;

pub fn plan_runs(prop: Prop, tier: &str) -> u64 {
    match prop {
        Prop::C04 => crate::c04::plan(tier),
        Prop::C05 => crate::c05::plan(tier).runs,
        Prop::C07 => crate::c07::plan(tier),
        Prop::C09 => crate::c09::plan(tier),
        Prop::C10 => crate::c10::plan(tier),
        Prop::C17 => crate::c17::plan(tier),
        Prop::C19 => crate::c19::plan(tier),
    }
}

/// One run in `soak_every` is a soak run: one of its exchanges, chosen by the PRNG, is repeated 300 or
/// 65,540 times in a row (C04 has its own soak runs: the same message delivered up to 70,001 times).
fn soak_every(prop: Prop) -> u64 {
    match prop {
        Prop::C04 => 0,
        Prop::C05 => 4096,
        Prop::C07 => 64,
        Prop::C09 => 1024,
        Prop::C10 => 256,
        Prop::C17 => 512,
        Prop::C19 => 128,
    }
}

pub fn gen(prop: Prop, seed: u64, run: u64, tier: &str) -> Vec<Step> {
    let mut steps = gen_plain(prop, seed, run, tier);
    let k = soak_every(prop);
    if k > 0 && run % k == 3 && !steps.is_empty() {
        let mut r = crate::prng::Rng::new(seed, run, 97);
        let i = r.usize_below(steps.len());
        // the selfcheck tier is also what Miri interprets: keep it short there
        let times = if tier == "selfcheck" { 40 } else if r.chance(2, 3) { 65_540 } else { 300 };
        steps[i] = Step::Repeat { times, step: Box::new(steps[i].clone()) };
    }
    steps
}

fn gen_plain(prop: Prop, seed: u64, run: u64, tier: &str) -> Vec<Step> {
    match prop {
        Prop::C04 => crate::c04::gen(seed, run, tier),
        Prop::C05 => crate::c05::gen(seed, run, tier),
        Prop::C07 => crate::c07::gen(seed, run, tier),
        Prop::C09 => crate::c09::gen(seed, run, tier),
        Prop::C10 => crate::c10::gen(seed, run, tier),
        Prop::C17 => crate::c17::gen(seed, run, tier),
        Prop::C19 => crate::c19::gen(seed, run, tier),
    }
}

fn account(prop: Prop, step: &Step, dev: &Device, stats: &mut Stats) {
    if let Step::Repeat { times, step } = step {
        stats.probe("soak_exchange_repeated");
        stats.probe_n("soak_repetitions", *times);
        stats.real_calls += *times - 1;
        return account(prop, step, dev, stats);
    }
    match prop {
        Prop::C04 => crate::c04::account(step, &dev.last_outcome, stats),
        Prop::C05 => crate::c05::account(step, &dev.last_outcome, stats),
        Prop::C07 => crate::c07::account(step, &dev.last_outcome, stats),
        Prop::C09 => crate::c09::account(step, &dev.last_outcome, stats),
        Prop::C10 => crate::c10::account(step, &dev.last_outcome, stats),
        Prop::C17 => crate::c17::account(step, &dev.last_outcome, stats),
        Prop::C19 => crate::c19::account(step, &dev.last_outcome, stats),
    }
}

fn journal_write(f: &mut Option<std::fs::File>, run: u64, step: u64) {
    if let Some(f) = f {
        use std::os::unix::fs::FileExt;
        let mut b = [0u8; 16];
        b[..8].copy_from_slice(&run.to_le_bytes());
        b[8..].copy_from_slice(&step.to_le_bytes());
        let _ = f.write_at(&b, 0);
    }
}

fn journal_read(p: &Path) -> Option<(u64, u64)> {
    let b = std::fs::read(p).ok()?;
    if b.len() < 16 {
        return None;
    }
    Some((u64::from_le_bytes(b[..8].try_into().ok()?), u64::from_le_bytes(b[8..16].try_into().ok()?)))
}

pub struct WorkerArgs {
    pub prop: Prop,
    pub tier: String,
    pub seed: u64,
    pub from: u64,
    pub to: u64,
    pub journal: Option<PathBuf>,
    pub step_journal: bool,
    pub out: PathBuf,
    pub run_hashes: Option<PathBuf>,
}

/// Worker body: executes runs [from, to) and writes a WorkerResult.
pub fn worker(a: &WorkerArgs) -> i32 {
    let mut res = WorkerResult::default();
    let mut jf = a.journal.as_ref().and_then(|p| std::fs::OpenOptions::new().create(true).write(true).truncate(false).open(p).ok());
    let mut run_hashes: Vec<(u64, u64)> = Vec::new();
    let started = Instant::now();
    for run in a.from..a.to {
        journal_write(&mut jf, run, u64::MAX);
        let steps = gen(a.prop, a.seed, run, &a.tier);
        let mut dev = Device::new();
        let mut log = Log::new(false);
        let mut found: Option<(usize, Finding)> = None;
        for (k, st) in steps.iter().enumerate() {
            if a.step_journal {
                journal_write(&mut jf, run, k as u64);
            }
            let t_step = Instant::now();
            let mut f = trace::exec(&mut dev, st, a.prop, &mut log);
            let took = t_step.elapsed();
            account(a.prop, st, &dev, &mut res.stats);
            // time monitor (C04 only; never logged, so event logs stay deterministic): a decode
            // normally takes microseconds. One that takes seconds is re-timed three times in
            // isolation and reported only if every repetition is still that slow.
            if f.is_none() && a.prop == Prop::C04 && took > Duration::from_millis(SLOW_MS) && !matches!(st, Step::Deliver { class, .. } if class.starts_with("sweep")) {
                let mut best = took;
                for _ in 0..3 {
                    let mut d2 = Device::new();
                    let mut l2 = Log::new(false);
                    let t = Instant::now();
                    let _ = trace::exec(&mut d2, st, a.prop, &mut l2);
                    best = best.min(t.elapsed());
                }
                if best > Duration::from_millis(SLOW_MS) {
                    f = Some(Finding {
                        rule: "slow".into(),
                        detail: format!("one exchange takes {} ms even when repeated alone (normal: well under 1 ms): super-linear work or a near-hang for an input within the message limit", best.as_millis()),
                    });
                } else {
                    res.stats.probe("slow_step_not_reproduced");
                }
            }
            if let Some(f) = f {
                found = Some((k, f));
                break;
            }
        }
        res.stats.runs += 1;
        res.stats.exchanges += dev.exchanges;
        res.stats.skipped_seeds += dev.skipped_seeds;
        res.stats.used_seeds += dev.used_seeds;
        res.stats.logs.insert(log.hash());
        run_hashes.push((run, log.hash()));
        if let Some((k, f)) = found {
            // profile-specific model-level minimisation first (C05), generic minimisation in the parent
            let mut vsteps: Vec<Step> = steps[..=k].to_vec();
            let mut at = k;
            if a.prop == Prop::C05 {
                if let Step::Deliver { class, site, .. } = &steps[k] {
                    if let Some(m) = crate::c05::minimise(a.seed, run, &f.rule, class, site) {
                        at = m.len() - 1;
                        vsteps = m;
                    }
                }
            }
            res.violations.push(Violation {
                property: a.prop.id().to_string(),
                rule: f.rule.clone(),
                detail: f.detail.clone(),
                run,
                at_step: at,
                steps: vsteps.iter().map(|s| s.to_json()).collect(),
                log_hash: log.hash(),
                aborted: false,
            });
            if res.violations.len() >= 8 && a.run_hashes.is_none() {
                break; // enough to report; do not flood
            }
        }
    }
    let _ = started;
    if let Some(p) = &a.run_hashes {
        let mut b = Vec::with_capacity(run_hashes.len() * 16);
        for (r, h) in &run_hashes {
            b.extend_from_slice(&r.to_le_bytes());
            b.extend_from_slice(&h.to_le_bytes());
        }
        let _ = std::fs::write(p, b);
    }
    if std::fs::write(&a.out, res.to_json().compact()).is_err() {
        return 2;
    }
    0
}

/// Run the worker body on a thread with a large fixed stack (device code recursion is linear in the message length).
pub fn on_big_stack<T: Send + 'static>(f: impl FnOnce() -> T + Send + 'static) -> T {
    std::thread::Builder::new().stack_size(STACK).spawn(f).expect("spawn").join().expect("worker thread panicked")
}

// ------------------------------------------------------------------ parent

pub struct RunArgs {
    pub prop: Prop,
    pub tier: String,
    pub seed: u64,
    pub workers: usize,
    pub out: PathBuf,
    pub replay_dir: PathBuf,
    pub tmp: PathBuf,
    pub runs_override: Option<u64>,
    pub time_limit_s: u64,
}

struct Child {
    proc: std::process::Child,
    from: u64,
    to: u64,
    journal: PathBuf,
    out: PathBuf,
    /// last journal entry seen by the supervisor and when it last changed (stall watchdog)
    seen: Option<(u64, u64)>,
    since: Instant,
}

fn spawn_worker(exe: &Path, a: &RunArgs, from: u64, to: u64, tag: &str, step_journal: bool) -> std::io::Result<Child> {
    let journal = a.tmp.join(format!("{}-{}-{}.journal", a.prop.id(), feature_tag(), tag));
    let out = a.tmp.join(format!("{}-{}-{}.result.json", a.prop.id(), feature_tag(), tag));
    let _ = std::fs::remove_file(&journal);
    let _ = std::fs::remove_file(&out);
    let mut c = Command::new(exe);
    c.arg("worker")
        .arg(a.prop.id())
        .arg(&a.tier)
        .arg("--seed")
        .arg(a.seed.to_string())
        .arg("--from")
        .arg(from.to_string())
        .arg("--to")
        .arg(to.to_string())
        .arg("--journal")
        .arg(&journal)
        .arg("--out")
        .arg(&out)
        .stdin(Stdio::null())
        .stdout(Stdio::null())
        .stderr(Stdio::null());
    if step_journal {
        c.arg("--step-journal");
    }
    Ok(Child { proc: c.spawn()?, from, to, journal, out, seen: None, since: Instant::now() })
}

pub fn feature_tag() -> String {
    feature_set().replace(',', "+")
}

fn read_result(p: &Path) -> Option<WorkerResult> {
    let t = std::fs::read_to_string(p).ok()?;
    WorkerResult::from_json(&json::parse(&t).ok()?)
}

pub struct Summary {
    pub stats: Stats,
    pub violations: Vec<(Violation, PathBuf)>,
    pub errors: Vec<String>,
    pub wall_s: f64,
    pub aborts: u64,
}

/// A worker that stays inside one run for this long is treated as hung (checked again alone before anything is reported).
const STALL_S: u64 = 40;

pub fn run_parent(a: &RunArgs) -> Summary {
    let exe = std::env::current_exe().expect("current_exe");
    std::fs::create_dir_all(&a.tmp).ok();
    std::fs::create_dir_all(&a.replay_dir).ok();
    let total = a.runs_override.unwrap_or_else(|| plan_runs(a.prop, &a.tier));
    let started = Instant::now();
    let deadline = started + Duration::from_secs(a.time_limit_s);
    let mut stats = Stats::default();
    let mut raw_violations: Vec<Violation> = Vec::new();
    let mut errors: Vec<String> = Vec::new();
    let mut aborts = 0u64;
    let mut stalls = 0u64;
    let mut hangs_confirmed = 0u64;

    // interleaved chunks so that every worker sees a mix of cheap and expensive runs
    let w = a.workers.max(1) as u64;
    let chunk = ((total + w - 1) / w).max(1);
    let mut pending: Vec<(u64, u64)> = Vec::new();
    let mut start = 0;
    while start < total {
        pending.push((start, (start + chunk).min(total)));
        start += chunk;
    }
    let mut live: Vec<Child> = Vec::new();
    let mut tagn = 0;
    loop {
        while live.len() < a.workers.max(1) && !pending.is_empty() {
            let (f, t) = pending.remove(0);
            tagn += 1;
            match spawn_worker(&exe, a, f, t, &format!("w{}", tagn), false) {
                Ok(c) => live.push(c),
                Err(e) => errors.push(format!("cannot spawn worker: {}", e)),
            }
        }
        if live.is_empty() {
            break;
        }
        let mut k = 0;
        let mut progressed = false;
        while k < live.len() {
            match live[k].proc.try_wait() {
                Ok(Some(status)) => {
                    progressed = true;
                    let c = live.remove(k);
                    use std::os::unix::process::ExitStatusExt;
                    if let Some(sig) = status.signal() {
                        // a worker died inside real code: find the run and the step
                        aborts += 1;
                        let (run, _) = journal_read(&c.journal).unwrap_or((c.from, u64::MAX));
                        // results of the runs before it are lost with the worker: redo them, then isolate the run
                        if run > c.from {
                            pending.push((c.from, run));
                        }
                        if run + 1 < c.to {
                            pending.push((run + 1, c.to));
                        }
                        if aborts <= 4 {
                            match isolate_abort(&exe, a, run, sig) {
                                Ok(v) => raw_violations.push(v),
                                Err(e) => errors.push(e),
                            }
                        }
                    } else if status.code() == Some(0) {
                        match read_result(&c.out) {
                            Some(r) => {
                                stats.merge(&r.stats);
                                raw_violations.extend(r.violations);
                                errors.extend(r.errors);
                            }
                            None => errors.push(format!("worker {}..{} produced no readable result", c.from, c.to)),
                        }
                    } else {
                        errors.push(format!("worker {}..{} exited with {:?}", c.from, c.to, status.code()));
                    }
                    let _ = std::fs::remove_file(&c.journal);
                    let _ = std::fs::remove_file(&c.out);
                }
                Ok(None) => {
                    // stall watchdog: a worker whose journal has not moved for STALL_S seconds is inside one
                    // exchange that does not return (a run normally takes milliseconds, a soak run seconds)
                    let now_entry = journal_read(&live[k].journal);
                    if now_entry != live[k].seen {
                        live[k].seen = now_entry;
                        live[k].since = Instant::now();
                        k += 1;
                    } else if live[k].since.elapsed() > Duration::from_secs(STALL_S) {
                        let mut c = live.remove(k);
                        let _ = c.proc.kill();
                        let _ = c.proc.wait();
                        progressed = true;
                        let (run, _) = now_entry.unwrap_or((c.from, u64::MAX));
                        if run > c.from {
                            pending.push((c.from, run));
                        }
                        if run + 1 < c.to {
                            pending.push((run + 1, c.to));
                        }
                        stalls += 1;
                        if stalls <= 2 {
                            match isolate_hang(&exe, a, run) {
                                Some(v) => {
                                    raw_violations.push(v);
                                    hangs_confirmed += 1;
                                }
                                // slow machine, long soak run: not a hang and not an error; the run's coverage is simply not counted
                                None => stats.probe("stalled_run_finished_alone"),
                            }
                        }
                        let _ = std::fs::remove_file(&c.journal);
                        let _ = std::fs::remove_file(&c.out);
                    } else {
                        k += 1;
                    }
                }
                Err(e) => {
                    errors.push(format!("wait failed: {}", e));
                    live.remove(k);
                }
            }
        }
        if hangs_confirmed >= 1 {
            // a confirmed hang is a verdict; the rest of the batch would mostly wait for further stalls
            for mut c in live.drain(..) {
                let _ = c.proc.kill();
                let _ = c.proc.wait();
                let _ = std::fs::remove_file(&c.journal);
                let _ = std::fs::remove_file(&c.out);
            }
            break;
        }
        if Instant::now() > deadline {
            // hang watchdog: which runs were in flight?
            for mut c in live.drain(..) {
                let _ = c.proc.kill();
                let _ = c.proc.wait();
                let (run, _) = journal_read(&c.journal).unwrap_or((c.from, u64::MAX));
                match isolate_hang(&exe, a, run) {
                    Some(v) => raw_violations.push(v),
                    None => errors.push(format!("batch time limit of {} s exceeded (run {} did not reproduce a hang alone)", a.time_limit_s, run)),
                }
            }
            break;
        }
        if !progressed {
            std::thread::sleep(Duration::from_millis(5));
        }
    }

    // minimise, replay, persist
    let mut violations = Vec::new();
    raw_violations.sort_by(|x, y| (x.run, x.at_step).cmp(&(y.run, y.at_step)));
    let mut seen_rules = std::collections::BTreeSet::new();
    for v in raw_violations {
        // one report per (rule) is enough for a verdict; further ones are counted
        let first_of_rule = seen_rules.insert(v.rule.clone());
        if !first_of_rule && (violations.len() >= 3 || v.rule == "hang") {
            continue; // (each further hang costs minutes of waiting to confirm)
        }
        if violations.len() >= 8 {
            break;
        }
        match finalise_violation(&exe, a, v) {
            Ok(pair) => violations.push(pair),
            Err(e) => errors.push(e),
        }
    }
    Summary { stats, violations, errors, wall_s: started.elapsed().as_secs_f64(), aborts }
}

fn isolate_abort(exe: &Path, a: &RunArgs, run: u64, sig: i32) -> Result<Violation, String> {
    let c = spawn_worker(exe, a, run, run + 1, &format!("iso{}", run), true).map_err(|e| e.to_string())?;
    let mut c = c;
    let status = c.proc.wait().map_err(|e| e.to_string())?;
    use std::os::unix::process::ExitStatusExt;
    let r = if status.signal().is_some() {
        let (jr, step) = journal_read(&c.journal).unwrap_or((run, 0));
        let steps = gen(a.prop, a.seed, run, &a.tier);
        let at = if jr == run && step != u64::MAX { (step as usize).min(steps.len().saturating_sub(1)) } else { steps.len().saturating_sub(1) };
        Ok(Violation {
            property: a.prop.id().to_string(),
            rule: "abort".into(),
            detail: format!("worker process killed by signal {} while executing this exchange (abort / stack overflow / trap)", status.signal().unwrap_or(sig)),
            run,
            at_step: at,
            steps: steps[..=at].iter().map(|s| s.to_json()).collect(),
            log_hash: 0,
            aborted: true,
        })
    } else {
        Err(format!("worker died on signal {} in run {} but the run did not die again when executed alone", sig, run))
    };
    let _ = std::fs::remove_file(&c.journal);
    let _ = std::fs::remove_file(&c.out);
    r
}

const HANG_ALONE_S: u64 = 20;
/// `simctl replay` gives up (abort, i.e. a signal) after this long
const REPLAY_LIMIT_S: u64 = 60;

/// Wait for a child, but not for ever.
fn wait_limited(mut c: std::process::Child, secs: u64) -> Option<std::process::Output> {
    let t0 = Instant::now();
    loop {
        match c.try_wait() {
            Ok(Some(_)) => return c.wait_with_output().ok(),
            Ok(None) if t0.elapsed() > Duration::from_secs(secs) => {
                let _ = c.kill();
                let _ = c.wait();
                return None;
            }
            Ok(None) => std::thread::sleep(Duration::from_millis(10)),
            Err(_) => return None,
        }
    }
}

fn isolate_hang(exe: &Path, a: &RunArgs, run: u64) -> Option<Violation> {
    let mut c = spawn_worker(exe, a, run, run + 1, &format!("hang{}", run), true).ok()?;
    let t0 = Instant::now();
    // soak and sweep runs legitimately take seconds (much longer on a loaded machine): they get a wider limit
    let long_run = gen(a.prop, a.seed, run, &a.tier).iter().any(|s| match s {
        Step::Repeat { .. } => true,
        Step::Deliver { class, .. } => class.starts_with("soak") || class.starts_with("sweep"),
        _ => false,
    });
    let limit = if long_run { 240 } else { HANG_ALONE_S };
    loop {
        if let Ok(Some(_)) = c.proc.try_wait() {
            let _ = std::fs::remove_file(&c.journal);
            let _ = std::fs::remove_file(&c.out);
            return None;
        }
        if t0.elapsed() > Duration::from_secs(limit) {
            let _ = c.proc.kill();
            let _ = c.proc.wait();
            let (_, step) = journal_read(&c.journal).unwrap_or((run, 0));
            let steps = gen(a.prop, a.seed, run, &a.tier);
            let at = (step as usize).min(steps.len().saturating_sub(1));
            let _ = std::fs::remove_file(&c.journal);
            return Some(Violation {
                property: a.prop.id().to_string(),
                rule: "hang".into(),
                detail: format!("exchange did not finish within {} s when executed alone", limit),
                run,
                at_step: at,
                steps: steps[..=at].iter().map(|s| s.to_json()).collect(),
                log_hash: 0,
                aborted: true,
            });
        }
        std::thread::sleep(Duration::from_millis(20));
    }
}

pub fn steps_from_json(js: &[J]) -> Option<Vec<Step>> {
    js.iter().map(Step::from_json).collect()
}

/// Does this trace still fail the same way? In-process for ordinary findings, in a child for aborts.
fn still_fails(exe: &Path, a: &RunArgs, steps: &[Step], rule: &str, aborted: bool) -> bool {
    if rule == "slow" {
        // the trace's last exchange must still be slow on a fresh device (earlier exchanges are irrelevant to timing)
        let Some(last) = steps.last() else { return false };
        let mut best = Duration::from_secs(3600);
        for _ in 0..2 {
            let mut d = Device::new();
            let mut l = Log::new(false);
            let t = Instant::now();
            let _ = trace::exec(&mut d, last, a.prop, &mut l);
            best = best.min(t.elapsed());
        }
        return best > Duration::from_millis(SLOW_MS);
    }
    if !aborted {
        let (res, _, _) = run_trace(steps, a.prop, false);
        matches!(res, Some((k, f)) if k == steps.len() - 1 && f.rule == rule)
    } else {
        let p = a.tmp.join(format!("{}-{}-cand.json", a.prop.id(), feature_tag()));
        let j = replay_json(a, rule, "", 0, steps, 0, &[], true);
        if std::fs::write(&p, j.compact()).is_err() {
            return false;
        }
        let st = Command::new(exe).arg("replay").arg(&p).stdin(Stdio::null()).stdout(Stdio::null()).stderr(Stdio::null()).status();
        use std::os::unix::process::ExitStatusExt;
        matches!(st, Ok(s) if s.signal().is_some())
    }
}

pub fn minimise(exe: &Path, a: &RunArgs, steps: Vec<Step>, rule: &str, aborted: bool) -> Vec<Step> {
    let t0 = Instant::now();
    let mut budget: i64 = if aborted { 150 } else { 2000 };
    let mut cur = steps;
    let ok = |cand: &[Step], budget: &mut i64| -> bool {
        if *budget <= 0 || t0.elapsed() > Duration::from_secs(30) {
            return false;
        }
        *budget -= 1;
        !cand.is_empty() && still_fails(exe, a, cand, rule, aborted)
    };
    // 1. drop earlier exchanges: all at once, then halves, then one by one
    if cur.len() > 1 {
        let last = vec![cur[cur.len() - 1].clone()];
        if ok(&last, &mut budget) {
            cur = last;
        }
    }
    let mut chunk = (cur.len() / 2).max(1);
    while cur.len() > 1 {
        let mut i = 0;
        let mut any = false;
        while i + 1 < cur.len() {
            let end = (i + chunk).min(cur.len() - 1);
            let mut cand = cur[..i].to_vec();
            cand.extend_from_slice(&cur[end..]);
            if ok(&cand, &mut budget) {
                cur = cand;
                any = true;
            } else {
                i = end;
            }
        }
        if chunk == 1 && !any {
            break;
        }
        chunk = (chunk / 2).max(1);
        if budget <= 0 {
            break;
        }
    }
    // 2. shrink the failing exchange (and then the remaining earlier ones)
    let mut idx = cur.len();
    while idx > 0 {
        idx -= 1;
        loop {
            let mut improved = false;
            for cand_step in cur[idx].shrinks() {
                let mut cand = cur.clone();
                cand[idx] = cand_step;
                if ok(&cand, &mut budget) {
                    cur = cand;
                    improved = true;
                    break;
                }
            }
            if !improved || budget <= 0 {
                break;
            }
        }
    }
    cur
}

#[allow(clippy::too_many_arguments)]
fn replay_json(a: &RunArgs, rule: &str, detail: &str, run: u64, steps: &[Step], log_hash: u64, lines: &[String], aborted: bool) -> J {
    obj(vec![
        ("property", s(a.prop.id())),
        ("rule", s(rule)),
        ("detail", s(detail)),
        ("seed", J::Int(a.seed as i64)),
        ("run", J::Int(run as i64)),
        ("tier", s(a.tier.clone())),
        ("features", s(feature_set())),
        ("aborted", J::Bool(aborted)),
        ("log_hash", s(format!("{:016x}", log_hash))),
        ("steps", J::Arr(steps.iter().map(|x| x.to_json()).collect())),
        ("event_log", J::Arr(lines.iter().map(|l| s(l.clone())).collect())),
    ])
}

/// Run a candidate trace in a FRESH process. Returns Some(log hash) if the rule fires at the last step.
fn fresh_process_fails(exe: &Path, a: &RunArgs, steps: &[Step], rule: &str, aborted: bool) -> Option<u64> {
    let p = a.tmp.join(format!("{}-{}-fresh-{}.json", a.prop.id(), feature_tag(), std::process::id()));
    let j = replay_json(a, rule, "", 0, steps, 0, &[], aborted);
    std::fs::write(&p, j.compact()).ok()?;
    let out = Command::new(exe).arg("replay").arg(&p).stdin(Stdio::null()).stdout(Stdio::piped()).stderr(Stdio::null()).output().ok()?;
    let _ = std::fs::remove_file(&p);
    use std::os::unix::process::ExitStatusExt;
    if aborted {
        return if out.status.signal().is_some() { Some(0) } else { None };
    }
    if out.status.code() != Some(1) {
        return None;
    }
    let text = String::from_utf8_lossy(&out.stdout).to_string();
    let line = text.lines().find(|l| l.starts_with("REPRODUCED"))?;
    let h = line.split("log_hash=").nth(1)?.trim();
    u64::from_str_radix(h, 16).ok()
}

/// Like `fresh_process_fails`, but also returns the finding's detail and the event log as the fresh process saw them.
fn fresh_process_outcome(exe: &Path, a: &RunArgs, steps: &[Step], rule: &str) -> Option<(u64, String, Vec<String>)> {
    let p = a.tmp.join(format!("{}-{}-freshout-{}.json", a.prop.id(), feature_tag(), std::process::id()));
    let j = replay_json(a, rule, "", 0, steps, 0, &[], false);
    std::fs::write(&p, j.compact()).ok()?;
    let out = Command::new(exe).arg("replay").arg(&p).stdin(Stdio::null()).stdout(Stdio::piped()).stderr(Stdio::null()).output().ok()?;
    let _ = std::fs::remove_file(&p);
    if out.status.code() != Some(1) {
        return None;
    }
    let text = String::from_utf8_lossy(&out.stdout).to_string();
    let line = text.lines().find(|l| l.starts_with("REPRODUCED"))?;
    let h = u64::from_str_radix(line.split("log_hash=").nth(1)?.trim(), 16).ok()?;
    let detail = text.lines().find_map(|l| l.strip_prefix("finding: ")).and_then(|l| l.split_once("detail=")).map(|(_, d)| d.to_string()).unwrap_or_default();
    let lines = text.lines().filter_map(|l| l.strip_prefix("  ")).map(|l| l.to_string()).collect();
    Some((h, detail, lines))
}

/// Execute runs `from..to` one after the other in THIS process, the way a worker does, and return what
/// happens at run `target` (finding, event-log hash, event log). Used for findings that need the history
/// of earlier runs because the code under test keeps state outside the simulated device.
pub fn run_range(prop: Prop, seed: u64, tier: &str, from: u64, to: u64, target: u64) -> (Option<(usize, Finding)>, u64, Vec<String>) {
    let mut last = (None, 0, Vec::new());
    for run in from..to {
        let steps = gen(prop, seed, run, tier);
        let mut dev = Device::new();
        let mut log = Log::new(run == target);
        let mut found = None;
        for (k, st) in steps.iter().enumerate() {
            if let Some(f) = trace::exec(&mut dev, st, prop, &mut log) {
                found = Some((k, f));
                break;
            }
        }
        if run == target {
            last = (found, log.hash(), log.lines.clone().unwrap_or_default());
        }
    }
    last
}

/// Does the finding (rule at run) come back when runs `from..=run` are executed in one fresh process?
fn range_fails(exe: &Path, a: &RunArgs, from: u64, run: u64, rule: &str) -> Option<u64> {
    let out = Command::new(exe)
        .arg("range")
        .arg(a.prop.id())
        .arg(&a.tier)
        .arg("--seed")
        .arg(a.seed.to_string())
        .arg("--from")
        .arg(from.to_string())
        .arg("--run")
        .arg(run.to_string())
        .stdin(Stdio::null())
        .stdout(Stdio::piped())
        .stderr(Stdio::null())
        .spawn()
        .ok()
        .and_then(|c| wait_limited(c, 900))?;
    let text = String::from_utf8_lossy(&out.stdout).to_string();
    let line = text.lines().find(|l| l.starts_with("RANGE-FINDING"))?;
    if !line.contains(&format!("rule={} ", rule)) {
        return None;
    }
    u64::from_str_radix(line.split("log_hash=").nth(1)?.trim(), 16).ok()
}

/// A finding that does not come back when its run is executed alone: look for the shortest suffix of
/// the worker's own history (runs start..=run, same seed) that brings it back in a fresh process.
fn finalise_history_violation(exe: &Path, a: &RunArgs, v: Violation) -> Result<(Violation, PathBuf), String> {
    let total = a.runs_override.unwrap_or_else(|| plan_runs(a.prop, &a.tier));
    let w = a.workers.max(1) as u64;
    let chunk = ((total + w - 1) / w).max(1);
    let start = (v.run / chunk) * chunk;
    let t0 = Instant::now();
    if range_fails(exe, a, start, v.run, &v.rule).is_none() {
        return Err(format!(
            "finding rule={} run={} did not reproduce, neither alone in a fresh process nor with its worker's history (runs {}..={}) re-executed in a fresh process; not reported",
            v.rule, v.run, start, v.run
        ));
    }
    // shortest history: bisect the first run (a later start means less history)
    let (mut lo, mut hi) = (start, v.run); // invariant: range from lo fails; from hi (alone) does not
    while hi - lo > 1 && t0.elapsed() < Duration::from_secs(240) {
        let mid = lo + (hi - lo) / 2;
        if range_fails(exe, a, mid, v.run, &v.rule).is_some() {
            lo = mid;
        } else {
            hi = mid;
        }
    }
    let hash = range_fails(exe, a, lo, v.run, &v.rule).ok_or_else(|| "harness: history minimisation lost the failure".to_string())?;
    let detail = format!(
        "{} [needs history: the code under test keeps state outside the simulated device; reproduced by executing runs {}..={} of seed {} in one process ({} runs of history; with one run less it does not come back)]",
        v.detail, lo, v.run, a.seed, v.run - lo
    );
    let steps = steps_from_json(&v.steps).ok_or_else(|| "harness: violation trace does not parse".to_string())?;
    let mut j = replay_json(a, &v.rule, &detail, v.run, &steps, hash, &[], false);
    if let J::Obj(m) = &mut j {
        m.push(("history".to_string(), obj(vec![("from", J::Int(lo as i64)), ("run", J::Int(v.run as i64))])));
    }
    let text = j.pretty();
    let name = format!("{}-{}-{:016x}.json", a.prop.id(), a.seed, crate::prng::fnv(text.as_bytes()));
    let path = a.replay_dir.join(name);
    std::fs::write(&path, text).map_err(|e| format!("cannot write replay file: {}", e))?;
    let st = Command::new(exe).arg("replay").arg(&path).stdin(Stdio::null()).stdout(Stdio::piped()).stderr(Stdio::null()).output().map_err(|e| e.to_string())?;
    if !(st.status.code() == Some(1) && String::from_utf8_lossy(&st.stdout).contains("REPRODUCED")) {
        let _ = std::fs::remove_file(&path);
        return Err(format!("history replay of {} in a fresh process did not reproduce (rule {}); not reported", path.display(), v.rule));
    }
    let mut v2 = v;
    v2.detail = detail;
    v2.log_hash = hash;
    Ok((v2, path))
}

/// Greedy minimisation in which every candidate runs in a fresh process (used when the code under
/// test turns out to keep state outside the simulated device, so that in-process re-execution lies).
fn minimise_isolated(exe: &Path, a: &RunArgs, steps: Vec<Step>, rule: &str, aborted: bool) -> Vec<Step> {
    let t0 = Instant::now();
    let mut budget = 200i64;
    let mut cur = steps;
    let mut ok = |cand: &[Step]| -> bool {
        if budget <= 0 || t0.elapsed() > Duration::from_secs(60) || cand.is_empty() {
            return false;
        }
        budget -= 1;
        fresh_process_fails(exe, a, cand, rule, aborted).is_some()
    };
    let mut chunk = (cur.len() / 2).max(1);
    while cur.len() > 1 {
        let mut i = 0;
        let mut any = false;
        while i + 1 < cur.len() {
            let end = (i + chunk).min(cur.len() - 1);
            let mut cand = cur[..i].to_vec();
            cand.extend_from_slice(&cur[end..]);
            if ok(&cand) {
                cur = cand;
                any = true;
            } else {
                i = end;
            }
        }
        if chunk == 1 && !any {
            break;
        }
        chunk = (chunk / 2).max(1);
    }
    cur
}

/// Minimise, write the replay file, replay it in a fresh process, and only then report.
/// The supervisor never executes real code itself: minimisation and the choice of what to report run in a
/// child process (`simctl finalise`), because a fault that corrupts memory (an unchecked write past a buffer)
/// can take down whichever process re-executes it. If that child dies, the finding is reported unminimised,
/// after a fresh process has reproduced it.
fn finalise_violation(exe: &Path, a: &RunArgs, v: Violation) -> Result<(Violation, PathBuf), String> {
    let tag = format!("{}-{}-{}-{}", a.prop.id(), feature_tag(), std::process::id(), v.run);
    let vf = a.tmp.join(format!("{}-finalise-in.json", tag));
    let of = a.tmp.join(format!("{}-finalise-out.json", tag));
    let _ = std::fs::remove_file(&of);
    std::fs::write(&vf, v.to_json().compact()).map_err(|e| format!("cannot write {}: {}", vf.display(), e))?;
    let mut cmd = Command::new(exe);
    cmd.arg("finalise").arg(a.prop.id()).arg(&a.tier).arg("--seed").arg(a.seed.to_string()).arg("--workers").arg(a.workers.to_string());
    cmd.arg("--replay-dir").arg(&a.replay_dir).arg("--tmp").arg(&a.tmp).arg("--violation").arg(&vf).arg("--out").arg(&of);
    if let Some(r) = a.runs_override {
        cmd.arg("--runs").arg(r.to_string());
    }
    let st: Result<std::process::ExitStatus, String> = match cmd.stdin(Stdio::null()).stdout(Stdio::null()).stderr(Stdio::null()).spawn() {
        Ok(c) => wait_limited(c, 1200).map(|o| o.status).ok_or_else(|| "did not finish within 1200 s".to_string()),
        Err(e) => Err(e.to_string()),
    };
    let _ = std::fs::remove_file(&vf);
    let parsed = std::fs::read_to_string(&of).ok().and_then(|t| json::parse(&t).ok());
    let _ = std::fs::remove_file(&of);
    if let (Ok(s), Some(j)) = (&st, &parsed) {
        if s.code() == Some(0) {
            if let Some(e) = j.get("error").and_then(|e| e.str()) {
                return Err(e.to_string());
            }
            if let (Some(v2), Some(p)) = (j.get("violation").and_then(Violation::from_json), j.get("path").and_then(|p| p.str())) {
                return Ok((v2, PathBuf::from(p)));
            }
        }
    }
    // the finalising child died or left nothing: report the worker's own trace, verified in a fresh process
    let steps = steps_from_json(&v.steps).ok_or_else(|| "harness: violation trace does not parse".to_string())?;
    let (detail, log_hash, lines) = if v.aborted {
        fresh_process_fails(exe, a, &steps, &v.rule, true).ok_or_else(|| format!("finding rule={} run={}: the finalising process died and the trace did not reproduce in a fresh process; not reported", v.rule, v.run))?;
        (v.detail.clone(), 0, vec![])
    } else {
        let (h, d, l) = fresh_process_outcome(exe, a, &steps, &v.rule).ok_or_else(|| format!("finding rule={} run={}: the finalising process died and the trace did not reproduce in a fresh process; not reported", v.rule, v.run))?;
        (format!("{} [not minimised: the process that re-executed minimisation candidates died ({:?}) - the fault corrupts memory]", d, st.as_ref().map(|s| s.to_string()).unwrap_or_default()), h, l)
    };
    let j = replay_json(a, &v.rule, &detail, v.run, &steps, log_hash, &lines, v.aborted);
    let text = j.pretty();
    let path = a.replay_dir.join(format!("{}-{}-{:016x}.json", a.prop.id(), a.seed, crate::prng::fnv(text.as_bytes())));
    std::fs::write(&path, text).map_err(|e| format!("cannot write replay file: {}", e))?;
    let out = Command::new(exe).arg("replay").arg(&path).stdin(Stdio::null()).stdout(Stdio::piped()).stderr(Stdio::null()).output().map_err(|e| e.to_string())?;
    use std::os::unix::process::ExitStatusExt;
    let reproduced = if v.aborted { out.status.signal().is_some() } else { out.status.code() == Some(1) && String::from_utf8_lossy(&out.stdout).contains("REPRODUCED") };
    if !reproduced {
        let _ = std::fs::remove_file(&path);
        return Err(format!("replay of {} in a fresh process did not reproduce (rule {}); not reported", path.display(), v.rule));
    }
    let mut v2 = v;
    v2.detail = detail;
    v2.log_hash = log_hash;
    Ok((v2, path))
}

/// Body of `simctl finalise`: what used to run inside the supervisor.
pub fn finalise_child(a: &RunArgs, violation_file: &Path, out_file: &Path) -> i32 {
    let exe = std::env::current_exe().expect("current_exe");
    let Some(v) = std::fs::read_to_string(violation_file).ok().and_then(|t| json::parse(&t).ok()).and_then(|j| Violation::from_json(&j)) else {
        return 2;
    };
    let j = match finalise_violation_inproc(&exe, a, v) {
        Ok((v2, p)) => obj(vec![("violation", v2.to_json()), ("path", s(p.display().to_string()))]),
        Err(e) => obj(vec![("error", s(e))]),
    };
    if std::fs::write(out_file, j.compact()).is_err() {
        return 2;
    }
    0
}

fn finalise_violation_inproc(exe: &Path, a: &RunArgs, v: Violation) -> Result<(Violation, PathBuf), String> {
    let steps = steps_from_json(&v.steps).ok_or_else(|| "harness: violation trace does not parse".to_string())?;
    // the worker's finding must reproduce in a fresh process before anything else
    if v.rule != "slow" && fresh_process_fails(exe, a, &steps, &v.rule, v.aborted).is_none() {
        if v.aborted {
            return Err(format!("finding rule={} run={} (worker died) did not reproduce when its run was re-executed alone in a fresh process; not reported", v.rule, v.run));
        }
        return finalise_history_violation(exe, a, v);
    }
    if v.rule == "slow" && !still_fails(exe, a, &steps, &v.rule, v.aborted) {
        return Err(format!("finding rule=slow run={} did not reproduce; not reported", v.run));
    }
    let mut min = minimise(exe, a, steps.clone(), &v.rule, v.aborted);
    let mut isolated = false;
    if v.rule != "slow" && !v.aborted && fresh_process_fails(exe, a, &min, &v.rule, v.aborted).is_none() {
        // in-process minimisation was misled (hidden state in the code under test): redo it with fresh processes
        min = minimise_isolated(exe, a, steps, &v.rule, v.aborted);
        isolated = true;
    }
    let (detail, log_hash, lines) = if v.aborted {
        (v.detail.clone(), 0, vec![])
    } else if isolated {
        let h = fresh_process_fails(exe, a, &min, &v.rule, false).ok_or_else(|| "harness: isolated minimisation lost the failure".to_string())?;
        (format!("{} [minimised with fresh processes: the code under test keeps state outside the simulated device]", v.detail), h, vec![])
    } else if v.rule == "slow" {
        let (_, log, _) = run_trace(&min, a.prop, true);
        (v.detail.clone(), log.hash(), log.lines.clone().unwrap_or_default())
    } else {
        // what the report says is what a fresh process sees (this process has executed many candidates)
        match fresh_process_outcome(exe, a, &min, &v.rule) {
            Some((h, d, lines)) => (d, h, lines),
            None => return Err("harness: minimised trace stopped failing".into()),
        }
    };
    let j = replay_json(a, &v.rule, &detail, v.run, &min, log_hash, &lines, v.aborted);
    let text = j.pretty();
    let name = format!("{}-{}-{:016x}.json", a.prop.id(), a.seed, crate::prng::fnv(text.as_bytes()));
    let path = a.replay_dir.join(name);
    std::fs::write(&path, text).map_err(|e| format!("cannot write replay file: {}", e))?;
    // fresh-process replay must reproduce exactly
    let st = Command::new(exe).arg("replay").arg(&path).stdin(Stdio::null()).stdout(Stdio::piped()).stderr(Stdio::null()).output().map_err(|e| e.to_string())?;
    use std::os::unix::process::ExitStatusExt;
    let reproduced = if v.aborted { st.status.signal().is_some() } else { st.status.code() == Some(1) && String::from_utf8_lossy(&st.stdout).contains("REPRODUCED") };
    if !reproduced {
        let _ = std::fs::remove_file(&path);
        return Err(format!("replay of {} in a fresh process did not reproduce (rule {}); not reported", path.display(), v.rule));
    }
    let mut v2 = v;
    v2.detail = detail;
    v2.steps = min.iter().map(|x| x.to_json()).collect();
    v2.at_step = min.len() - 1;
    v2.log_hash = log_hash;
    Ok((v2, path))
}

/// `simctl replay <file>`: exit 1 + "REPRODUCED" if the recorded rule fires at the last step with the
/// recorded event-log hash; exit 0 if nothing fires; exit 2 on any mismatch.
pub fn replay(path: &Path) -> i32 {
    let Ok(text) = std::fs::read_to_string(path) else {
        eprintln!("cannot read {}", path.display());
        return 2;
    };
    let Ok(j) = json::parse(&text) else {
        eprintln!("cannot parse {}", path.display());
        return 2;
    };
    let (Some(prop), Some(rule), Some(steps)) = (
        j.get("property").and_then(|p| p.str()).and_then(Prop::parse),
        j.get("rule").and_then(|r| r.str()),
        j.get("steps").and_then(|x| x.arr()).and_then(steps_from_json),
    ) else {
        eprintln!("replay file lacks property/rule/steps");
        return 2;
    };
    let want_hash = j.get("log_hash").and_then(|h| h.str()).and_then(|h| u64::from_str_radix(h, 16).ok()).unwrap_or(0);
    let aborted = j.get("aborted").and_then(|b| b.bool()).unwrap_or(false);
    if let Some(f) = j.get("features").and_then(|f| f.str()) {
        if f != feature_set() {
            eprintln!("note: replay file was recorded with features [{}], this binary has [{}]", f, feature_set());
        }
    }
    let rule = rule.to_string();
    // every replay terminates: an exchange that never returns is the `hang` rule reproducing, and for any
    // other rule it must not hang the supervisor that is waiting for this process
    {
        let limit = if j.get("history").is_some() { 900 } else if rule == "hang" { HANG_ALONE_S } else { REPLAY_LIMIT_S };
        let (rule2, pid) = (rule.clone(), prop.id());
        std::thread::spawn(move || {
            std::thread::sleep(Duration::from_secs(limit));
            if rule2 == "hang" {
                println!("REPRODUCED property={} rule=hang (the trace did not finish within {} s) log_hash={:016x}", pid, limit, 0);
            } else {
                println!("TIMEOUT: the trace did not finish within {} s", limit);
            }
            use std::io::Write;
            let _ = std::io::stdout().flush();
            std::process::abort();
        });
    }
    if let Some(h) = j.get("history") {
        let (Some(from), Some(run), Some(seed), Some(tier)) = (
            h.get("from").and_then(|x| x.int()),
            h.get("run").and_then(|x| x.int()),
            j.get("seed").and_then(|x| x.int()),
            j.get("tier").and_then(|x| x.str()).map(|x| x.to_string()),
        ) else {
            eprintln!("history replay file lacks from/run/seed/tier");
            return 2;
        };
        println!("history replay: runs {}..={} of seed {} executed one after the other in this process", from, run, seed);
        let (res, hash, lines) = on_big_stack(move || run_range(prop, seed as u64, &tier, from as u64, run as u64 + 1, run as u64));
        for l in &lines {
            println!("  {}", l);
        }
        return match res {
            Some((k, f)) => {
                println!("finding: step {} rule={} detail={}", k, f.rule, f.detail);
                if f.rule == rule && (want_hash == 0 || want_hash == hash) {
                    println!("REPRODUCED property={} rule={} log_hash={:016x}", prop.id(), f.rule, hash);
                    1
                } else {
                    println!("MISMATCH: expected rule={} with log_hash={:016x}, got rule={} with {:016x}", rule, want_hash, f.rule, hash);
                    2
                }
            }
            None => {
                println!("no finding: run {} executes cleanly after that history on this tree (log_hash={:016x})", run, hash);
                0
            }
        };
    }
    if rule == "slow" {
        let last = steps.last().cloned();
        let took = on_big_stack(move || {
            let mut best = Duration::from_secs(3600);
            if let Some(last) = last {
                for _ in 0..2 {
                    let mut d = Device::new();
                    let mut l = Log::new(false);
                    let t = Instant::now();
                    let _ = trace::exec(&mut d, &last, prop, &mut l);
                    best = best.min(t.elapsed());
                }
            }
            best
        });
        println!("last exchange takes {} ms (threshold {} ms)", took.as_millis(), SLOW_MS);
        return if took > Duration::from_millis(SLOW_MS) {
            println!("REPRODUCED property={} rule=slow log_hash={:016x}", prop.id(), want_hash);
            1
        } else {
            0
        };
    }
    let (res, log) = on_big_stack(move || {
        let (res, log, _) = run_trace(&steps, prop, true);
        (res.map(|(k, f)| (k, f, steps.len())), log)
    });
    for l in log.lines.as_deref().unwrap_or(&[]) {
        println!("  {}", l);
    }
    match res {
        Some((k, f, n)) => {
            println!("finding: step {} rule={} detail={}", k, f.rule, f.detail);
            if f.rule == rule && k + 1 == n && (aborted || want_hash == 0 || want_hash == log.hash()) {
                println!("REPRODUCED property={} rule={} log_hash={:016x}", prop.id(), f.rule, log.hash());
                1
            } else {
                println!("MISMATCH: expected rule={} at last step with log_hash={:016x}, got rule={} at step {} with {:016x}", rule, want_hash, f.rule, k, log.hash());
                2
            }
        }
        None => {
            println!("no finding: the trace executes cleanly on this tree (log_hash={:016x})", log.hash());
            0
        }
    }
}

/// Determinism: every run executed in two different processes with different worker
/// counts; per-run event-log hashes must agree.
pub fn selfcheck(a: &RunArgs, runs: u64) -> (u64, u64, Vec<String>) {
    let exe = std::env::current_exe().expect("current_exe");
    std::fs::create_dir_all(&a.tmp).ok();
    let mut errors = Vec::new();
    let mut collect = |workers: u64, tag: &str| -> std::collections::BTreeMap<u64, u64> {
        let mut map = std::collections::BTreeMap::new();
        let chunk = ((runs + workers - 1) / workers).max(1);
        let mut kids = Vec::new();
        let mut start = 0;
        let mut n = 0;
        while start < runs {
            let end = (start + chunk).min(runs);
            let hp = a.tmp.join(format!("{}-{}-{}-{}.hashes", a.prop.id(), feature_tag(), tag, n));
            let out = a.tmp.join(format!("{}-{}-{}-{}.sc.json", a.prop.id(), feature_tag(), tag, n));
            let child = Command::new(&exe)
                .arg("worker")
                .arg(a.prop.id())
                .arg("selfcheck")
                .arg("--seed")
                .arg(a.seed.to_string())
                .arg("--from")
                .arg(start.to_string())
                .arg("--to")
                .arg(end.to_string())
                .arg("--out")
                .arg(&out)
                .arg("--run-hashes")
                .arg(&hp)
                .stdin(Stdio::null())
                .stdout(Stdio::null())
                .stderr(Stdio::null())
                .spawn();
            match child {
                Ok(c) => kids.push((c, hp, out)),
                Err(e) => errors.push(format!("selfcheck spawn: {}", e)),
            }
            start = end;
            n += 1;
        }
        // a run that never returns must not hang the self-check: the main pass has the watchdog that reports it
        let deadline = Instant::now() + Duration::from_secs(if runs > 1000 { 900 } else { 240 });
        for (mut c, hp, out) in kids {
            loop {
                match c.try_wait() {
                    Ok(Some(_)) | Err(_) => break,
                    Ok(None) if Instant::now() > deadline => {
                        let _ = c.kill();
                        let _ = c.wait();
                        errors.push("determinism selfcheck: a worker did not finish in time and was stopped (see the main pass for a hang)".to_string());
                        break;
                    }
                    Ok(None) => std::thread::sleep(Duration::from_millis(10)),
                }
            }
            if let Ok(b) = std::fs::read(&hp) {
                for ch in b.chunks_exact(16) {
                    map.insert(u64::from_le_bytes(ch[..8].try_into().unwrap()), u64::from_le_bytes(ch[8..].try_into().unwrap()));
                }
            }
            let _ = std::fs::remove_file(&hp);
            let _ = std::fs::remove_file(&out);
        }
        map
    };
    let one = collect(1, "sc1");
    let many = collect(a.workers.max(2) as u64, "scN");
    let mut mismatches = 0;
    let mut compared = 0;
    for (r, h) in &one {
        match many.get(r) {
            Some(h2) => {
                compared += 1;
                if h != h2 {
                    mismatches += 1;
                }
            }
            None => errors.push(format!("selfcheck: run {} missing from the multi-worker pass", r)),
        }
    }
    if compared != runs {
        errors.push(format!("selfcheck compared {} of {} runs", compared, runs));
    }
    (compared, mismatches, errors)
}

pub fn write_file(p: &Path, text: &str) -> std::io::Result<()> {
    if let Some(d) = p.parent() {
        std::fs::create_dir_all(d)?;
    }
    let mut f = std::fs::File::create(p)?;
    f.write_all(text.as_bytes())
}
